#!/usr/bin/env python3
"""Triage of the survivors of engine/mutate.py: a mutant whose object code (-O1, no debug info) is identical to the original's is dead code
on this platform (other #ifdef branch) or an equivalent mutant; the rest is listed for reading.  usage: mut_triage.py <out.jsonl>"""
import json, os, subprocess, sys, tempfile, hashlib
sys.path.insert(0, os.path.dirname(os.path.abspath(__file__)))
import build

def obj_hash(src_text, rel, tmp):
    p = os.path.join(tmp, os.path.basename(rel))
    open(p, "w").write(src_text)
    o = p + ".o"
    c = build.config()
    cmd = ["gcc", "-O1", "-w", "-c", p, "-o", o, "-I" + os.path.join(build.REPO, "src")] + c["defines"] + ["-I" + i for i in c["incs"]]
    r = subprocess.run(cmd, stdout=subprocess.PIPE, stderr=subprocess.STDOUT)
    if r.returncode:
        return None
    subprocess.run(["strip", "--strip-debug", o])
    return hashlib.sha1(open(o, "rb").read()).hexdigest()

def main():
    rows = [json.loads(l) for l in open(sys.argv[1])]
    tmp = tempfile.mkdtemp(prefix="vp-triage-", dir="/var/tmp")
    base = {}
    dead = live = 0
    for r in rows:
        kinds = [v["kind"] for v in r["res"].values()]
        if "detected" in kinds or "build-error" in kinds:
            continue
        rel = r["file"]
        orig = open(os.path.join(build.REPO, rel), errors="replace").read()
        if rel not in base:
            base[rel] = obj_hash(orig, rel, tmp)
        lines = orig.split("\n")
        # re-create the mutant from the recorded old/new stripped texts
        ln = lines[r["line"] - 1]
        if ln.strip()[:160] != r["old"]:
            print("?? cannot re-create", rel, r["line"]); continue
        indent = ln[:len(ln) - len(ln.lstrip())]
        lines[r["line"] - 1] = indent + r["new"] if len(r["new"]) < 160 else None
        if lines[r["line"] - 1] is None:
            print("?? long line", rel, r["line"]); continue
        h = obj_hash("\n".join(lines), rel, tmp)
        if h == base[rel]:
            dead += 1
        else:
            live += 1
            print("LIVE %-22s %4d %-26s | %s  =>  %s   %s" % (rel.replace("src/", ""), r["line"], r["desc"][:26], r["old"][:75], r["new"][:60], sorted(set(kinds))))
    print("survivors with identical object code (dead / equivalent): %d, with different object code: %d" % (dead, live))

if __name__ == "__main__":
    main()
