#!/bin/sh
# runs every claimed check's command of the given tier (default quick), sequentially; prints one line per check
T=${1:-quick}
cd "$(dirname "$0")/.."
for id in $(python3 -c "import json;print(' '.join(c['property_id'] for c in json.load(open('MANIFEST.json'))['checks']))"); do
  python3 run.py $id --tier $T > build/runall.$id.log 2>&1; rc=$?
  echo "rc=$rc $(tail -1 build/runall.$id.log)"
  grep -h "^VIOLATION\|^KNOWN-FINDING\|^ENGINE" build/runall.$id.log | cut -c1-200
done
