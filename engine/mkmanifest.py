#!/usr/bin/env python3
"""regenerates /verif/MANIFEST.json from the table below (keeps the manifest valid at all times)"""
import json, os, sys
VERIF = os.path.dirname(os.path.dirname(os.path.abspath(__file__)))
sys.path.insert(0, VERIF)

# id -> (category, engine, technique, text, note, design_ref)
CLAIMED = {}


def claim(pid, category, engine, technique, text, note, ref):
    CLAIMED[pid] = dict(category=category, engine=engine, technique=technique, text=text, note=note, ref=ref)


TREE_NOTE = ("trusted: gcc/ASan, the harness' reference map (arrays indexed by rank). Bounds: key universe K (quick 7; thorough BST 10, RB 12, AVL 13); "
             "every reachable (shape, colour/balance) state over all subsets of the K keys is visited and the full alphabet applied in each.")
claim("C12", "model_checking", "SEQ", "explicit-state BFS to closure on the real PTree (history replay) vs sorted-map reference",
      "Every reachable state of each tree type over K ordered keys is enumerated on the real implementation; in every state every insert/replace/remove/"
      "lookup/foreach-stop/clear/free is applied and compared with a reference sorted map. Exhaustive for all operation sequences over <= K keys, "
      "which a sampled unit test cannot give.", TREE_NOTE, "5 C12")
claim("C13", "model_checking", "SEQ", "balance invariant evaluated in every state of the exhaustive BFS state graph of the real RB/AVL trees",
      "The AVL height-balance condition and red-black colourability (exact DP on the shape) plus the logarithmic comparator-count bound of "
      "p_tree_lookup are evaluated in every reachable state over K keys (closure reached).", TREE_NOTE, "5 C13")
claim("C14", "model_checking", "SEQ", "destroy-notifier log checked on every transition of the exhaustive BFS state graph, and free from every state",
      "For every transition of the complete state graph (removals of nodes with 0/1/2 children at every depth, replaces, clear, free) the exact set "
      "of objects handed to the notifiers is compared with the reference; double destroy and use of a destroyed key by the comparator are detected; "
      "modes: both notifiers, key-only, value-only, none.", TREE_NOTE, "5 C12-C14")

SCHED_NOTE = ("trusted: gcc's tsan instrumentation pass (only as a source of callbacks), our runtime engine/mcrt_* (scheduler, POSIX threads model, vector-clock monitor), glibc for the real "
              "pthread contracts. Bounds: 2-4 threads, 1-2 operations each, preemption bound 2 (quick) / 3-4 (thorough), <= 1 spurious wake-up; state-hash pruning on causal-history "
              "fingerprints (DESIGN.md 3.3). Sequentially consistent scheduler; weak-memory reorderings beyond what the happens-before monitor judges are not explored.")
claim("C01", "model_checking", "SCHED", "preemption-bounded exhaustive interleaving exploration of the real lock code under a controlled scheduler + happens-before monitor; one long execution per model with the spin abstraction off (waiter makes 2^24+ fruitless attempts while the holder stays inside)",
      "All interleavings (within the preemption bound) of 2-3 threads doing lock/trylock/unlock on the real PMutex and PSpinLock, for each of the c11, sync and sim models, with a "
      "shadow holder count, a happens-before race monitor on the protected data (visibility), deadlock/livelock detection and a never-blocks check for trylock.", SCHED_NOTE, "5 C01")
claim("C02", "model_checking", "SCHED", "preemption-bounded exhaustive interleaving exploration incl. spurious wake-ups and signal-target choice, posix (glibc reader- and writer-preferring kinds modelled) and general rwlock models; 70 000 read holds by one thread",
      "All interleavings within the bounds of reader/writer lock, trylock and unlock scripts on the real PRWLock; the portable 'general' model (never built on Linux) is compiled in and "
      "explored over modelled mutex/condvars, including every spurious wake-up position; exclusion invariant, shared readers (existential), no lost wake-up (every thread finishes).", SCHED_NOTE, "5 C02")
claim("C03", "model_checking", "SCHED", "preemption-bounded exhaustive interleaving exploration of producer/consumer protocols over the POSIX condvar model with contract checks",
      "The wrappers are explored driving a POSIX condition-variable model that checks its own contract (waiter holds an initialised mutex); bounded-buffer, gate and token protocols must "
      "complete in every schedule, with every choice of the woken waiter and with spurious wake-ups.", SCHED_NOTE, "5 C03")
claim("C04", "model_checking", "SEQ+SCHED", "operand-alphabet enumeration + exhaustive interleavings with brute-force linearizability check + store-buffering / message-passing litmus tests explored over x86-TSO store buffers in the scheduler, three atomic models",
      "Every operation on every boundary operand combination against C word arithmetic; every interleaving (within the bound) of 2-3 threads x 1-2 atomic ops on one word checked against "
      "all sequential orders; message passing under the happens-before monitor; full-barrier accounting for set/get.", SCHED_NOTE, "5 C04")
claim("C05", "model_checking", "SCHED", "preemption-bounded exhaustive interleaving exploration with tracking allocator, freed-memory poisoning and happens-before monitor",
      "Creator scripts over ref/unref/join x joinable/detached x thread bodies, exit codes, TLS set/replace/get with racing first use, foreign threads: every interleaving with thread start, "
      "exit and exit-time TLS destructors; the handle must be freed exactly once, after the last reference, never touched afterwards.", SCHED_NOTE, "5 C05")
claim("C08", "model_checking", "SEQ", "explicit-state BFS to closure over the ring positions of the real PShmBuffer vs a byte-deque reference",
      "For every capacity 1..6 (thorough ..9,12) the complete reachable (read_pos, write_pos) graph is explored with every length 0..S+1 through two handles (second opened with equal, larger "
      "and smaller size); return values, FIFO bytes and space accounting are compared with a reference deque after every operation; concurrent write/read/used/clear by 2-3 handles are explored over all interleavings (preemption bound 2/3) and must be linearizable.",
      "trusted: the kernel's POSIX shm/semaphores (real /dev/shm), gcc/ASan, our scheduler runtime for the concurrent part (2-3 threads with own handles, every IPC system call a scheduling point, "
      "results checked against all sequential orders). Known finding: handle opened with a smaller size (known_findings.txt).", "5 C08")
claim("C15", "model_checking", "SEQ", "explicit-state BFS to closure over bucket-chain states of the real PHashTable and all PList contents up to a length, under UBSan/ASan",
      "Chain states over a 13-key universe built to collide and to hit the integer-conversion edges, <= 3 (quick) / 4 live keys x 3 values; every insert/remove/lookup/keys/values/"
      "lookup_by_value in every state vs an assoc array; every list content up to length 5 (8) x every op vs an array; UB is decided by the sanitizers.", "trusted: gcc UBSan/ASan; white-box chain dump by #including phashtable.c", "5 C15")

claim("C11", "exploration", "SEQ", "bounded-exhaustive enumeration of update chunkings and call sequences against an independent implementation (GNU nettle)",
      "Per algorithm every (bytes buffered, chunk length) pair up to 2B+1, every three-way split around block boundaries, every call sequence up to depth 6 (7) over update/reset/get_string/"
      "get_digest (exact and short buffer), four content classes (position-coded, all-ff, all-00, ff-fe) to drive carry chains; thorough adds single updates of 2^32+r bytes and a 2^32-crossing stream.",
      "trusted: GNU nettle as the implementation of the standards; gcc ASan/UBSan. Message content is not enumerated beyond the four classes.", "5 C11")
claim("C16", "exploration", "SEQ", "bounded-exhaustive enumeration of file contents (all short byte strings; all files of <= N documented line kinds) vs a reference parser",
      "Robustness over every byte string up to length 5 (6) on an 18-symbol critical alphabet plus line-length families around 1024/2048; grammar conformance over every file of <= 3 (4) lines "
      "from 25 line kinds with/without BOM against a reference parser written from pinifile.h; all getters and defaults.",
      "trusted: the reference parser (harness/ini_enum.c, ~40 lines), gcc ASan/UBSan. Repeated/blank section names and over-long lines are robustness-only.", "5 C16")
claim("C17", "exploration", "SEQ", "bounded-exhaustive enumeration of addresses, ports, strings and buffer lengths vs the platform resolver functions",
      "Boundary-class IPv4 exhaustively (all 2^32 in thorough), all ports, structured IPv6 with flow/scope, every string up to length 6 (7) over an address alphabet, every native length 0..40 on "
      "exact-size heap blocks under ASan; oracle = inet_pton/inet_ntop/getaddrinfo of this platform.", "trusted: glibc's inet_pton/inet_ntop/getaddrinfo; gcc ASan.", "5 C17")

IPC_NOTE = ("trusted: this kernel's POSIX named semaphores / shared memory (real /dev/shm objects, no model), the reference models in harness/ipc_hist.c, our scheduler runtime for part (b). "
            "Bounds: 2 names x 3 handle slots x 2 processes, history depth 4 (quick) / 5, preemption bound 2/3, every IPC-call crash point of 3-4 victim scripts. Known findings are listed in known_findings.txt.")
claim("C06", "model_checking", "SEQ+SCHED+FAULT", "BFS over cross-process histories on real kernel objects vs a reference model + exhaustive interleavings + exhaustive crash-point enumeration",
      "Histories of new(OPEN|CREATE)/acquire/release/take_ownership/free over 2 names, 3 handles, 2 forked processes are enumerated by BFS with state dedup and run on the real semaphores; blocking is reported "
      "by the process itself, not inferred from timing; all interleavings of concurrent acquirers and of an open racing an owner free; SIGKILL before/after every IPC call followed by the documented recovery.", IPC_NOTE, "5 C06")
claim("C07", "model_checking", "SEQ+SCHED+FAULT", "BFS over cross-process histories on real kernel objects vs a reference model + exhaustive interleavings + exhaustive crash-point enumeration",
      "Histories of new/write/read/lock/unlock/take_ownership/free over 2 names, 3 sizes, 3 handles in 2 forked processes (same bytes, sizes, lock as one mutex, names gone after owner free, fresh zero-filled "
      "segment afterwards); all interleavings of concurrent lockers and of concurrent first-time creators; SIGKILL before/after every IPC call followed by the documented clean-up.", IPC_NOTE, "5 C07")

claim("C18", "fault_enumeration", "FAULT", "exhaustive single-fault enumeration: every allocation index k of every scenario fails (once / from k on) in a forked ASan child",
      "13 scenarios across all allocating modules (+ general rwlock and sim atomic builds); for each, every allocation index and both failure modes are executed; the child must exit normally, the block "
      "ledger must balance after the scenario's own clean-up, pre-existing objects must answer as before, no IPC name may remain.",
      "trusted: gcc ASan/UBSan, the public allocator-table API as injection seam. The scenarios are representative call sequences, not all call sequences.", "5 C18")
claim("C19", "fault_enumeration", "ENV", "exhaustive enumeration of interruption points: EINTR at every k-th (thorough: every pair of) blocking system call invocation per scenario",
      "sleep on a virtual clock, semaphore acquire (unit present / arriving later), shm lock, named IPC open/create, TCP and UDP exchanges with time-outs on loopback: EINTR is injected with each call's real "
      "convention at every invocation index; the API-visible outcome must equal the run without injection; a 10 s watchdog turns a call that never returns into a violation.",
      "trusted: the Linux convention table for interrupted calls (clock_nanosleep returns the code). Asynchronous signal timing itself is not enumerable; the interruption points are.", "5 C19")
claim("C20", "fault_enumeration", "SEQ+ENV", "exhaustive enumeration of cross-module programs up to a depth and of every single injected system-call failure, with resource ledgers",
      "Every sequence of up to 2 (3) steps out of 21 create-use-free / failing steps across all modules, each in a forked ASan child, plus every system-call invocation of every single step forced to fail; "
      "allocator, descriptor, shared-mapping, IPC-name, pthread-object and dlopen ledgers must return to their initial state and no descriptor may be closed twice.",
      "trusted: /proc/self/fd, link-time interposition of the system calls, gcc ASan.", "5 C20")

KSIM_NOTE = ("trusted: KSIM (engine/ksim.c), an in-memory model of the Linux socket calls psocket.c uses, bound to the real kernel by the conformance replay in the C10 check (every explored sequential trace is "
             "re-run on real loopback sockets and must give identical per-step outcomes); our scheduler runtime. Payload bytes and the real TCP stack's segmentation are not explored.")
claim("C09", "model_checking", "SCHED+ENV over KSIM", "preemption- and deviation-bounded exhaustive exploration of client/server threads over an in-memory socket layer with tiny buffers",
      "Client and server threads with their own PSocket over KSIM (8-byte buffers, 2-datagram queues): all interleavings with <= 2 preemptions x all patterns of <= 1 (2) injected EINTR / spurious EAGAIN / "
      "extra-short transfers; byte-stream equality, datagram identity and sender address, no internal would-block/interrupted condition surfaced in blocking mode, time-outs not before T, no SIGPIPE.", KSIM_NOTE, "5 C09")
claim("C10", "model_checking", "SEQ over KSIM + conformance", "BFS over API call sequences on a socket model with virtual clock vs a reference state machine; all traces replayed on the real kernel",
      "Call sequences up to depth 8 (12) / 9 (14) on stream and datagram sockets of both families with a scripted peer, deduplicated on the reference state; getters, wait rules on the virtual clock, closed-state "
      "rules (not-available, no system call on a descriptor, idempotent close) and close-on-exec are checked after every call; every explored trace is replayed on real loopback sockets (traces_validated_against_impl).", KSIM_NOTE, "5 C10")

PENDING_REASON = "engine for this property is not finished in the committed tree yet (see DESIGN.md section 9); not served by a weaker technique meanwhile"


def main():
    props = [json.loads(l)["id"] for l in open(os.path.join(VERIF, "properties.jsonl"))]
    checks, na = [], []
    for p in props:
        if p in CLAIMED:
            c = CLAIMED[p]
            checks.append(dict(property_id=p,
                               quick_cmd="python3 run.py %s --tier quick" % p,
                               thorough_cmd="python3 run.py %s --tier thorough" % p,
                               evidence_file="evidence/%s.json" % p,
                               replay_cmd_template="python3 run.py %s --replay {path}" % p,
                               engine=c["engine"],
                               level_claimed=dict(category=c["category"], text=c["text"], design_ref="DESIGN.md section " + c["ref"]),
                               level_note=c["note"], technique=c["technique"]))
        else:
            na.append(dict(property_id=p, reason=PENDING_REASON))
    m = dict(version=1,
             setup_cmd="python3 engine/build.py --setup",
             hooks=dict(guard="PLIBSYS_VERIF",
                        enable="no source hooks: checks compile /repo/src themselves with -DPLIBSYS_VERIF (unused by the sources) and interpose at link time",
                        baseline_off_cmd="sh engine/baseline_off.sh",
                        source_commits=[], add_only=True),
             engines=[dict(name="SCHED", path="engine/mcrt_*.c + harness/sched_*.c", serves_properties=sorted(p for p in CLAIMED if "SCHED" in CLAIMED[p]["engine"]),
                           kind_free_text="stateless preemption-bounded DFS over real threads under a controlled scheduler (fork per execution), POSIX threads model, vector-clock happens-before monitor fed by compiler instrumentation, state-hash pruning"),
                      dict(name="FAULT/ENV", path="harness/alloc_fault.c, eintr_fault.c, resource_seq.c, ipc_hist.c (crash points)", serves_properties=["C06", "C07", "C18", "C19", "C20"], kind_free_text="exhaustive single-fault enumeration in forked ASan children: allocation index, EINTR at every blocking-call invocation, forced system-call failures, SIGKILL before/after every IPC call"),
                      dict(name="KSIM", path="engine/ksim.c + engine/mcrt_ksim.c", serves_properties=["C09", "C10"], kind_free_text="in-memory POSIX socket layer with tiny buffers, virtual clock and deviation points; conformance-replayed on the real kernel"),
                      dict(name="SEQ", path="engine/ + harness/", serves_properties=sorted(p for p in CLAIMED if "SEQ" in CLAIMED[p]["engine"]),
                           kind_free_text="explicit-state / bounded-exhaustive exploration of sequential APIs on the real objects against reference models")],
             checks=checks,
             notes="All checks rebuild the library from /repo's working tree into /verif/build (git-ignored). Violations already repaired in /repo are listed as 'fixed:' in known_findings.txt; three genuine defects that need a design change are listed as 'known:'. engine/seed_matrix.py re-runs every filed seeded change (seeded/) against the checks recorded as catching it, in isolation (VERIF_REPO/VERIF_BUILD).",
             not_applicable=na)
    json.dump(m, open(os.path.join(VERIF, "MANIFEST.json"), "w"), indent=1)
    print("MANIFEST.json: %d claimed, %d not claimed" % (len(checks), len(na)))


if __name__ == "__main__":
    main()
