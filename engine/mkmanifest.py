#!/usr/bin/env python3
"""regenerates /verif/MANIFEST.json from the table below (keeps the manifest valid at all times)"""
import json, os, sys
VERIF = os.path.dirname(os.path.dirname(os.path.abspath(__file__)))
sys.path.insert(0, VERIF)

# id -> (category, engine, technique, text, note, design_ref)
CLAIMED = {}


def claim(pid, category, engine, technique, text, note, ref):
    CLAIMED[pid] = dict(category=category, engine=engine, technique=technique, text=text, note=note, ref=ref)


TREE_NOTE = ("trusted: gcc/ASan, the harness' reference map (arrays indexed by rank). Bounds: key universe K (quick 7; thorough BST 10, RB 12, AVL 13); "
             "every reachable (shape, colour/balance) state over all subsets of the K keys is visited and the full alphabet applied in each.")
claim("C12", "model_checking", "SEQ", "explicit-state BFS to closure on the real PTree (history replay) vs sorted-map reference",
      "Every reachable state of each tree type over K ordered keys is enumerated on the real implementation; in every state every insert/replace/remove/"
      "lookup/foreach-stop/clear/free is applied and compared with a reference sorted map. Exhaustive for all operation sequences over <= K keys, "
      "which a sampled unit test cannot give.", TREE_NOTE, "5 C12")
claim("C13", "model_checking", "SEQ", "balance invariant evaluated in every state of the exhaustive BFS state graph of the real RB/AVL trees",
      "The AVL height-balance condition and red-black colourability (exact DP on the shape) plus the logarithmic comparator-count bound of "
      "p_tree_lookup are evaluated in every reachable state over K keys (closure reached).", TREE_NOTE, "5 C13")
claim("C14", "model_checking", "SEQ", "destroy-notifier log checked on every transition of the exhaustive BFS state graph, and free from every state",
      "For every transition of the complete state graph (removals of nodes with 0/1/2 children at every depth, replaces, clear, free) the exact set "
      "of objects handed to the notifiers is compared with the reference; double destroy and use of a destroyed key by the comparator are detected; "
      "modes: both notifiers, key-only, value-only, none.", TREE_NOTE, "5 C12-C14")

PENDING_REASON = "engine for this property is not finished in the committed tree yet (see DESIGN.md section 9); not served by a weaker technique meanwhile"


def main():
    props = [json.loads(l)["id"] for l in open(os.path.join(VERIF, "properties.jsonl"))]
    checks, na = [], []
    for p in props:
        if p in CLAIMED:
            c = CLAIMED[p]
            checks.append(dict(property_id=p,
                               quick_cmd="python3 run.py %s --tier quick" % p,
                               thorough_cmd="python3 run.py %s --tier thorough" % p,
                               evidence_file="evidence/%s.json" % p,
                               replay_cmd_template="python3 run.py %s --replay {path}" % p,
                               engine=c["engine"],
                               level_claimed=dict(category=c["category"], text=c["text"], design_ref="DESIGN.md section " + c["ref"]),
                               level_note=c["note"], technique=c["technique"]))
        else:
            na.append(dict(property_id=p, reason=PENDING_REASON))
    m = dict(version=1,
             setup_cmd="python3 engine/build.py --setup",
             hooks=dict(guard="PLIBSYS_VERIF",
                        enable="no source hooks: checks compile /repo/src themselves with -DPLIBSYS_VERIF (unused by the sources) and interpose at link time",
                        baseline_off_cmd="sh engine/baseline_off.sh",
                        source_commits=[], add_only=True),
             engines=[dict(name="SEQ", path="engine/ + harness/", serves_properties=sorted(p for p in CLAIMED if CLAIMED[p]["engine"] == "SEQ"),
                           kind_free_text="explicit-state / bounded-exhaustive exploration of sequential APIs on the real objects against reference models")],
             checks=checks,
             notes="All checks rebuild the library from /repo's working tree into /verif/build (git-ignored). Violations already repaired in /repo are listed as 'fixed:' in known_findings.txt.",
             not_applicable=na)
    json.dump(m, open(os.path.join(VERIF, "MANIFEST.json"), "w"), indent=1)
    print("MANIFEST.json: %d claimed, %d not claimed" % (len(checks), len(na)))


if __name__ == "__main__":
    main()
