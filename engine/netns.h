/* A harness that uses real loopback sockets moves into a network namespace of its own when the sandbox allows it: own loopback interface,
 * own ephemeral ports and TIME_WAIT table, so that neither an earlier run nor a concurrent one (another check, the repository's own socket
 * tests) can take a port away or leave the port range exhausted.  Returns 1 on success, 0 if namespaces are not available (the harness then
 * runs in the host namespace as before).  VERIF_NO_NETNS=1 switches it off. */
#ifndef VERIF_NETNS_H
#define VERIF_NETNS_H
#ifndef _GNU_SOURCE
#define _GNU_SOURCE
#endif
#include <sched.h>
#include <net/if.h>
#include <sys/ioctl.h>
#include <sys/socket.h>
#include <stdio.h>
#include <stdlib.h>
#include <string.h>
#include <unistd.h>
__attribute__((unused)) static int verif_private_netns(void)
{
    struct ifreq ifr; int s, ok;
    if (getenv("VERIF_NO_NETNS")) return 0;
    if (unshare(CLONE_NEWNET) < 0) return 0;
    s = socket(AF_INET, SOCK_DGRAM, 0); if (s < 0) { fprintf(stderr, "private network namespace: no socket\n"); exit(2); }
    memset(&ifr, 0, sizeof ifr); strcpy(ifr.ifr_name, "lo");
    ok = ioctl(s, SIOCGIFFLAGS, &ifr) == 0; ifr.ifr_flags |= IFF_UP | IFF_RUNNING; ok = ok && ioctl(s, SIOCSIFFLAGS, &ifr) == 0;
    close(s);
    if (!ok) { fprintf(stderr, "private network namespace without a usable loopback\n"); exit(2); }
    return 1;
}
#endif
