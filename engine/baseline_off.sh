#!/bin/sh
# builds /repo (guard off: there are no source hooks at all) in a scratch directory and runs the repository's own suite
set -e
D=$(mktemp -d /var/tmp/vp-baseline.XXXXXX)
trap 'rm -rf "$D"' EXIT
cmake -G Ninja -S /repo -B "$D" >/dev/null
cmake --build "$D" >/dev/null
ctest --test-dir "$D" -j8 --timeout 900
