#!/bin/sh
# debugging helper: run one mc harness job and print its key statistics
O=$(mktemp); VERIF_OUT=$O "$@" >/dev/null 2>&1; rc=$?
echo "rc=$rc $(grep -E '"k":"(executions|distinct_outcomes|nontrivial_executions|violating_executions)"' $O | sed 's/.*"k":"\([a-z_]*\)","v":\([0-9]*\)}/\1=\2/' | tr '\n' ' ')"
grep '"t":"viol"' $O | cut -c1-700
rm -f $O
