/* mcrt monitor: vector-clock happens-before race detector fed by the compiler's tsan instrumentation callbacks,
 * plus the __tsan_atomic* implementations (= scheduling points).  Execution is serialised by the scheduler, so no
 * locking is needed here.  Not compiled with -fsanitize=thread. */
#include "mcrt_int.h"
#include <unistd.h>

/* ------------------------------------------------------------------ vector clocks */
void vc_join(VC a, const VC b) { int i; for (i = 0; i < MAXT; i++) if (b[i] > a[i]) a[i] = b[i]; }
void vc_copy(VC a, const VC b) { memcpy(a, b, sizeof(VC)); }
void vc_tick(int tid) { T[tid].vc[tid]++; }

/* ------------------------------------------------------------------ per-object sync clocks */
typedef struct { void *obj; VC vc; int used; uint64_t hist; } SyncClk;
#define NSYNC 4096
static SyncClk syncs[NSYNC];
VC *sync_clock(void *obj, int create)
{
    unsigned long h = ((uintptr_t)obj >> 2) * 2654435761ul % NSYNC; int probes = 0;
    while (syncs[h].used) { if (syncs[h].obj == obj) return &syncs[h].vc; h = (h + 1) % NSYNC; if (++probes >= NSYNC) mc_engine_error("sync clock table full"); }
    if (!create) return NULL;
    syncs[h].used = 1; syncs[h].obj = obj; memset(syncs[h].vc, 0, sizeof(VC));
    return &syncs[h].vc;
}
uint64_t ch_objects_acc;
uint64_t ch_mix(uint64_t a, uint64_t b) { a ^= b + 0x9E3779B97F4A7C15ull + (a << 6) + (a >> 2); a *= 0xff51afd7ed558ccdull; a ^= a >> 33; return a; }
static SyncClk *sync_entry(void *obj) { VC *v = sync_clock(obj, 1); return (SyncClk *)((char *)v - offsetof(SyncClk, vc)); }
void ch_note(uint64_t v) { T[my_tid].ch = ch_mix(T[my_tid].ch, v); }
void ch_observe(void *obj, uint64_t v) { SyncClk *e = sync_entry(obj); T[my_tid].ch = ch_mix(ch_mix(T[my_tid].ch, e->hist), v); }
void ch_publish(void *obj, uint64_t v)
{
    SyncClk *e = sync_entry(obj); uint64_t key = (uint64_t)(uintptr_t)obj * 0x9E3779B97F4A7C15ull;
    ch_objects_acc -= ch_mix(key, e->hist);
    e->hist = ch_mix(ch_mix(e->hist, T[my_tid].ch), v);
    ch_objects_acc += ch_mix(key, e->hist);
}
void sync_clock_drop(void *obj) { VC *v = sync_clock(obj, 0); if (v) memset(*v, 0, sizeof(VC)); }
void mon_acquire_obj(void *obj) { VC *v = sync_clock(obj, 0); if (v) vc_join(T[my_tid].vc, *v); ch_observe(obj, 1); }
void mon_release_obj(void *obj) { VC *v = sync_clock(obj, 1); vc_copy(*v, T[my_tid].vc); vc_tick(my_tid); ch_publish(obj, 2); }
void mon_release_obj_join(void *obj) { VC *v = sync_clock(obj, 1); vc_join(*v, T[my_tid].vc); vc_tick(my_tid); ch_publish(obj, 3); }

/* ------------------------------------------------------------------ names for reports */
static struct { const char *lo; size_t len; const char *name; } names[64]; static int nnames;
void mc_name(const void *addr, size_t len, const char *name) { if (nnames < 64) { names[nnames].lo = addr; names[nnames].len = len; names[nnames].name = name; nnames++; } }
const char *addr_name(const void *addr, char *buf, size_t sz)
{
    int i;
    for (i = 0; i < nnames; i++) if ((const char *)addr >= names[i].lo && (const char *)addr < names[i].lo + names[i].len) { snprintf(buf, sz, "%s", names[i].name); return buf; }
    snprintf(buf, sz, "%p", addr); return buf;
}
/* ------------------------------------------------------------------ shadow memory: one cell per 8-byte granule, per-byte epochs */
#define EP(tid, clk) ((uint32_t)(((tid) + 1) << 24) | ((clk) & 0xffffff))
#define EP_TID(e) ((int)((e) >> 24) - 1)
#define EP_CLK(e) ((e) & 0xffffff)
typedef struct Cell {
    uintptr_t gran;                 /* granule address | 1 when used */
    uint32_t w[8];                  /* last write epoch per byte */
    uint8_t  watomic;               /* bit per byte: last write was atomic */
    uint8_t  poisoned;              /* bit per byte: freed heap memory */
    uint32_t r[8][MAXT];            /* last read clock per byte per thread (top bit: atomic read) */
    const void *wpc[8];
} Cell;
/* dense cell pool + small index table: a forked execution only touches (copy-on-write) the few pages it really uses */
#define NCELL (1u << 14)
#define NIDX (1u << 15)
static Cell *cells; static unsigned ncells_used; static uint16_t *cidx;

void *__real_calloc(size_t, size_t);
void mon_init(void)
{
    cells = __real_calloc(NCELL, sizeof(Cell)); cidx = __real_calloc(NIDX, sizeof *cidx);
    if (!cells || !cidx) { perror("shadow"); exit(2); }
    ncells_used = 1;                      /* index 0 = empty slot marker */
}

static Cell *cell_get(uintptr_t gran, int create)
{
    unsigned long h = ((gran >> 3) * 0x9E3779B97F4A7C15ul >> 40) & (NIDX - 1);
    while (cidx[h]) { if (cells[cidx[h]].gran == (gran | 1)) return &cells[cidx[h]]; h = (h + 1) & (NIDX - 1); }
    if (!create) return NULL;
    if (ncells_used >= NCELL) mc_engine_error("shadow memory exhausted (%u cells)", ncells_used);
    cidx[h] = (uint16_t)ncells_used;
    cells[ncells_used].gran = gran | 1;
    return &cells[ncells_used++];
}

int addr_on_any_stack(const void *a)
{
    int i;
    for (i = 0; i < nthreads; i++) if (T[i].used && a >= T[i].stack_lo && a < T[i].stack_hi) return 1;
    return 0;
}

static void race(const void *addr, int is_write, int atomic_now, int other_tid, int other_write, const void *pc, const void *opc)
{
    char an[96], f1[128], f2[128], sig[200];
    addr_name(addr, an, sizeof an); pc_name(pc, f1, sizeof f1);
    if (opc) pc_name(opc, f2, sizeof f2); else snprintf(f2, sizeof f2, "?");
    if (an[0] != '0') snprintf(sig, sizeof sig, "race/%s", an);
    else if (strcmp(f1, f2) <= 0 || !opc) snprintf(sig, sizeof sig, "race/%s~%s", f1, f2);
    else snprintf(sig, sizeof sig, "race/%s~%s", f2, f1);
    mc_violation("RACE", sig, "data race on %s: %s%s by T%d in %s is not ordered by happens-before with an earlier %s by T%d%s%s",
                 an, atomic_now ? "atomic " : "", is_write ? "write" : "read", my_tid, f1, other_write ? "write" : "read", other_tid,
                 opc ? " in " : "", opc ? f2 : "");
}

const void *mcrt_canon_addr(const void *a) __attribute__((weak));
static void access_bytes(const void *addr, size_t size, int is_write, int atomic, const void *pc)
{
    uintptr_t a = (uintptr_t)(mcrt_canon_addr ? mcrt_canon_addr(addr) : addr), end = a + size; int me = my_tid; uint32_t *myvc = T[me].vc;
    if (!mc_active && nthreads <= 1) { /* zygote init: single threaded, still record writes so later readers are ordered via creation */ }
    while (a < end) {
        uintptr_t gran = a & ~(uintptr_t)7; int b0 = (int)(a - gran), b1 = (int)((end < gran + 8 ? end : gran + 8) - gran), b, t;
        Cell *c = cell_get(gran, 1);
        for (b = b0; b < b1; b++) {
            uint32_t w = c->w[b];
            if (c->poisoned & (1u << b)) {
                char f1[128], sig[200]; pc_name(pc, f1, sizeof f1);
                snprintf(sig, sizeof sig, "use-after-free/%s", f1);
                mc_violation("UAF", sig, "%s of freed heap memory at %p by T%d in %s", is_write ? "write" : "read", (void *)(gran + b), me, f1);
            }
            if (w) {
                int wt = EP_TID(w), watom = (c->watomic >> b) & 1;
                if (wt != me && EP_CLK(w) > (myvc[wt] & 0xffffff) && !(atomic && watom))
                    race((void *)(gran + b), is_write, atomic, wt, 1, pc, c->wpc[b]);
            }
            if (is_write) {
                for (t = 0; t < MAXT; t++) {
                    uint32_t r = c->r[b][t];
                    if (r && t != me) {
                        int ratom = r >> 31;
                        if ((r & 0xffffff) > (myvc[t] & 0xffffff) && !(atomic && ratom)) race((void *)(gran + b), 1, atomic, t, 0, pc, NULL);
                    }
                    c->r[b][t] = 0;
                }
                c->w[b] = EP(me, myvc[me]); c->wpc[b] = pc;
                if (atomic) c->watomic |= (uint8_t)(1u << b); else c->watomic &= (uint8_t)~(1u << b);
            } else {
                c->r[b][me] = (myvc[me] & 0xffffff) | (atomic ? 0x80000000u : 0);
            }
        }
        a = gran + 8;
    }
}

static int sb_overlaps(Thread *t, uintptr_t a, size_t n);
void mon_plain(const void *addr, size_t size, int is_write, const void *pc)
{
    if (addr_on_any_stack(addr)) return;
    if (T[my_tid].sb_n && sb_overlaps(&T[my_tid], (uintptr_t)addr, size)) tso_flush(&T[my_tid]);
    access_bytes(addr, size, is_write, 0, pc);
}
void mon_range(const void *addr, size_t size, int is_write, const void *pc)
{
    if (!size || addr_on_any_stack(addr)) return;
    if (T[my_tid].sb_n && sb_overlaps(&T[my_tid], (uintptr_t)addr, size)) tso_flush(&T[my_tid]);
    access_bytes(addr, size, is_write, 0, pc);
}
void mon_free_block(const void *addr, size_t size, const void *pc)
{
    uintptr_t a = (uintptr_t)addr, end = a + size;
    access_bytes(addr, size, 1, 0, pc);          /* free conflicts with unordered accesses like a write */
    for (; a < end; a++) { Cell *c = cell_get(a & ~(uintptr_t)7, 1); c->poisoned |= (uint8_t)(1u << (a & 7)); }
}
/* memory handed to the code under test by the C library from its own heap (getaddrinfo results ...): the real allocator recycles such blocks between
 * threads without the monitor seeing the free and the allocation, so what was recorded for the previous life of these addresses is forgotten */
void mon_fresh_block(const void *addr, size_t size)
{
    uintptr_t a = (uintptr_t)addr & ~(uintptr_t)7, end = (uintptr_t)addr + size;
    for (; a < end; a += 8) { Cell *c = cell_get(a, 0); if (c) { uintptr_t g = c->gran; memset(c, 0, sizeof *c); c->gran = g; } }
}

/* ------------------------------------------------------------------ per-address write epochs (spin detection) */
typedef struct { uintptr_t a; unsigned long e; } WEp;
#define NWEP 1024
static WEp weps[NWEP];
static WEp *wep(uintptr_t a) { unsigned long h = (a >> 2) * 2654435761ul % NWEP; int p = 0; while (weps[h].a && weps[h].a != a) { h = (h + 1) % NWEP; if (++p >= NWEP) mc_engine_error("write-epoch table full"); } weps[h].a = a; return &weps[h]; }
unsigned long addr_write_epoch(uintptr_t a) { return wep(a)->e; }
void addr_bump_epoch(uintptr_t a) { wep(a)->e++; }

/* ------------------------------------------------------------------ tsan callbacks: plain accesses */
#define RA __builtin_return_address(0)
void __tsan_init(void) {}
void __tsan_func_entry(void *pc) { Thread *t = &T[my_tid]; if (t->ctx_depth < 64) t->ctx_stack[t->ctx_depth] = (unsigned long)pc; t->ctx_depth++; }
void __tsan_func_exit(void) { Thread *t = &T[my_tid]; if (t->ctx_depth > 0) t->ctx_depth--; }
static unsigned long ctx_hash(void) { Thread *t = &T[my_tid]; unsigned long h = 1469598103934665603UL; int i, n = t->ctx_depth < 64 ? t->ctx_depth : 64; for (i = 0; i < n; i++) { h ^= t->ctx_stack[i]; h *= 1099511628211UL; } return h; }

#define PLAIN(n) \
    void __tsan_read##n(void *a) { mon_plain(a, n, 0, RA); } \
    void __tsan_write##n(void *a) { mon_plain(a, n, 1, RA); } \
    void __tsan_unaligned_read##n(void *a) { mon_plain(a, n, 0, RA); } \
    void __tsan_unaligned_write##n(void *a) { mon_plain(a, n, 1, RA); }
PLAIN(1) PLAIN(2) PLAIN(4) PLAIN(8) PLAIN(16)
void __tsan_read_range(void *a, unsigned long n) { mon_range(a, n, 0, RA); }
void __tsan_write_range(void *a, unsigned long n) { mon_range(a, n, 1, RA); }
void __tsan_vptr_update(void **a, void *v) { (void)a; (void)v; }
void __tsan_vptr_read(void **a) { (void)a; }

/* ------------------------------------------------------------------ atomics */
enum { mo_relaxed, mo_consume, mo_acquire, mo_release, mo_acq_rel, mo_seq_cst };
static VC sc_clock;        /* global clock for seq_cst fences */
static const VC zero_vc;
static int tso_delay(void *a); static void sb_push(Thread *t, uintptr_t a, int n, uint64_t v, const VC vc); static int sb_overlaps(Thread *t, uintptr_t a, size_t n);

static void note_spin(uintptr_t a, uint64_t observed, const void *pc)
{
    Thread *t = &T[my_tid]; unsigned long ctx = ctx_hash() ^ (unsigned long)pc, ep = addr_write_epoch(a);
    if (t->spin_addr == a && t->spin_val == observed && t->spin_ctx == ctx && t->spin_epoch == ep) { if (++t->spin_same >= ctl->spin_patience) { t->spin_parked = 1; if (t->sb_n || t->pst_n) tso_flush(t); } }
    else t->spin_same = 0;
    t->spin_addr = a; t->spin_val = observed; t->spin_ctx = ctx; t->spin_epoch = ep;
}
static void clear_spin(void) { Thread *t = &T[my_tid]; t->spin_addr = 0; t->spin_parked = 0; t->spin_repeat = 0; t->spin_same = 0; }

static void atomic_load_sync(void *a, int mo)
{
    VC *l = sync_clock(a, 0); Thread *t = &T[my_tid];
    if (l) { if (mo >= mo_consume && mo != mo_release) vc_join(t->vc, *l); else vc_join(t->pend_acq, *l); }
    if (mo == mo_seq_cst) t->barriers++;
}
static void atomic_store_sync(void *a, int mo, int is_rmw)
{
    VC *l = sync_clock(a, 1); Thread *t = &T[my_tid];
    if (mo == mo_release || mo == mo_acq_rel || mo == mo_seq_cst) { if (is_rmw) vc_join(*l, t->vc); else vc_copy(*l, t->vc); }
    else if (t->has_fence_rel) { if (is_rmw) vc_join(*l, t->fence_rel); else vc_copy(*l, t->fence_rel); }
    else if (!is_rmw) memset(*l, 0, sizeof(VC));     /* relaxed store by anyone ends the release sequence */
    if (mo == mo_seq_cst) t->barriers++;
    vc_tick(my_tid);
    if (is_rmw != 2) addr_bump_epoch((uintptr_t)a);      /* is_rmw == 2: read-modify-write that left the value unchanged (no state change) */
}

#define ATOMIC_FAMILY(BITS, TYPE) \
TYPE __tsan_atomic##BITS##_load(const volatile TYPE *a, int mo) { TYPE v; \
    sched_point(OP_ATOMIC, (void *)a, 0); if (T[my_tid].sb_n && sb_overlaps(&T[my_tid], (uintptr_t)a, sizeof(TYPE))) tso_flush(&T[my_tid]); \
    access_bytes((void *)a, sizeof(TYPE), 0, 1, RA); \
    v = __atomic_load_n(a, __ATOMIC_SEQ_CST); atomic_load_sync((void *)a, mo); ch_observe((void *)a, (uint64_t)v); note_spin((uintptr_t)a, (uint64_t)v, RA); return v; } \
void __tsan_atomic##BITS##_store(volatile TYPE *a, TYPE v, int mo) { \
    sched_point(OP_ATOMIC, (void *)a, 1); access_bytes((void *)a, sizeof(TYPE), 1, 1, RA); \
    if (mo != mo_seq_cst && tso_delay((void *)a)) { sb_push(&T[my_tid], (uintptr_t)a, sizeof(TYPE), (uint64_t)v, mo == mo_release ? T[my_tid].vc : (T[my_tid].has_fence_rel ? T[my_tid].fence_rel : zero_vc)); vc_tick(my_tid); clear_spin(); return; } \
    __atomic_store_n(a, v, __ATOMIC_SEQ_CST); atomic_store_sync((void *)a, mo, 0); ch_publish((void *)a, (uint64_t)v); clear_spin(); } \
TYPE __tsan_atomic##BITS##_exchange(volatile TYPE *a, TYPE v, int mo) { TYPE o; \
    sched_point(OP_ATOMIC, (void *)a, 2); access_bytes((void *)a, sizeof(TYPE), 1, 1, RA); \
    o = __atomic_exchange_n(a, v, __ATOMIC_SEQ_CST); ch_observe((void *)a, (uint64_t)o); ch_publish((void *)a, (uint64_t)v); atomic_load_sync((void *)a, mo == mo_release ? mo_relaxed : mo); atomic_store_sync((void *)a, mo == mo_acquire ? mo_relaxed : mo, o == v ? 2 : 1); \
    if (o == v) note_spin((uintptr_t)a, (uint64_t)o, RA); else clear_spin(); return o; } \
int __tsan_atomic##BITS##_compare_exchange_strong(volatile TYPE *a, TYPE *e, TYPE d, int mo, int fmo) { int ok; TYPE seen; \
    sched_point(OP_ATOMIC, (void *)a, 3); \
    seen = __atomic_load_n(a, __ATOMIC_SEQ_CST); \
    ch_observe((void *)a, (uint64_t)seen); \
    if (seen == *e) { access_bytes((void *)a, sizeof(TYPE), 1, 1, RA); __atomic_store_n(a, d, __ATOMIC_SEQ_CST); ok = 1; ch_publish((void *)a, (uint64_t)d); \
        atomic_load_sync((void *)a, mo == mo_release ? mo_relaxed : mo); atomic_store_sync((void *)a, mo == mo_acquire ? mo_relaxed : mo, d == seen ? 2 : 1); \
        if (d == seen) note_spin((uintptr_t)a, (uint64_t)seen, RA); else clear_spin(); } \
    else { access_bytes((void *)a, sizeof(TYPE), 0, 1, RA); *e = seen; ok = 0; atomic_load_sync((void *)a, fmo); note_spin((uintptr_t)a, (uint64_t)seen, RA); } \
    return ok; } \
int __tsan_atomic##BITS##_compare_exchange_weak(volatile TYPE *a, TYPE *e, TYPE d, int mo, int fmo) { return __tsan_atomic##BITS##_compare_exchange_strong(a, e, d, mo, fmo); } \
TYPE __tsan_atomic##BITS##_compare_exchange_val(volatile TYPE *a, TYPE e, TYPE d, int mo, int fmo) { TYPE x = e; __tsan_atomic##BITS##_compare_exchange_strong(a, &x, d, mo, fmo); return x; }

#define ATOMIC_RMW(BITS, TYPE, NAME, EXPR) \
TYPE __tsan_atomic##BITS##_fetch_##NAME(volatile TYPE *a, TYPE v, int mo) { TYPE o; \
    sched_point(OP_ATOMIC, (void *)a, 4); access_bytes((void *)a, sizeof(TYPE), 1, 1, RA); \
    o = __atomic_load_n(a, __ATOMIC_SEQ_CST); __atomic_store_n(a, (TYPE)(EXPR), __ATOMIC_SEQ_CST); ch_observe((void *)a, (uint64_t)o); ch_publish((void *)a, (uint64_t)(TYPE)(EXPR)); \
    atomic_load_sync((void *)a, mo == mo_release ? mo_relaxed : mo); atomic_store_sync((void *)a, mo == mo_acquire ? mo_relaxed : mo, 1); clear_spin(); return o; }

#define ALL_FOR(BITS, TYPE) ATOMIC_FAMILY(BITS, TYPE) \
    ATOMIC_RMW(BITS, TYPE, add, o + v) ATOMIC_RMW(BITS, TYPE, sub, o - v) ATOMIC_RMW(BITS, TYPE, and, o & v) \
    ATOMIC_RMW(BITS, TYPE, or, o | v) ATOMIC_RMW(BITS, TYPE, xor, o ^ v) ATOMIC_RMW(BITS, TYPE, nand, ~(o & v))
ALL_FOR(8, uint8_t) ALL_FOR(16, uint16_t) ALL_FOR(32, uint32_t) ALL_FOR(64, uint64_t)

void __tsan_atomic_thread_fence(int mo)
{
    Thread *t = &T[my_tid];
    sched_point(OP_ATOMIC, NULL, 5);
    if (mo == mo_acquire || mo == mo_acq_rel || mo == mo_seq_cst || mo == mo_consume) { vc_join(t->vc, t->pend_acq); }
    if (mo == mo_release || mo == mo_acq_rel || mo == mo_seq_cst) { vc_copy(t->fence_rel, t->vc); t->has_fence_rel = 1; }
    if (mo == mo_seq_cst) { vc_join(t->vc, sc_clock); vc_copy(sc_clock, t->vc); t->barriers++; }
    vc_tick(my_tid);
}
void __tsan_atomic_signal_fence(int mo) { (void)mo; }

/* ------------------------------------------------------------------ x86-TSO store buffers (option -B)
 * The scheduler by itself is sequentially consistent.  With -B a plain (volatile) store or an atomic store weaker than
 * seq_cst may, as a deviation counted in the -d budget, stay in the storing thread's buffer: the other threads keep
 * reading the old value until the thread executes something that drains the buffer on x86 (mfence / seq_cst operation,
 * locked read-modify-write, any lock, thread or system operation, a yield), is found spinning, reads the location itself
 * (forwarding is approximated by an early drain, which TSO also allows) or finishes.  Buffers drain in FIFO order, a
 * store that is not delayed first drains what is buffered, so store-store order is never broken: every behaviour
 * produced is an x86-TSO behaviour (and so a behaviour of every weaker machine), none is invented.
 * A volatile store is executed by the instrumented code itself after the callback returns; the runtime notes the old
 * value, and when the thread next enters the runtime (before any other thread can run) takes the new value out of
 * memory into the buffer and puts the old one back. */
static uint64_t raw_read(uintptr_t a, int n) { uint64_t v = 0; memcpy(&v, (void *)a, n); return v; }
static void raw_write(uintptr_t a, int n, uint64_t v) { memcpy((void *)a, &v, n); }
static void sb_push(Thread *t, uintptr_t a, int n, uint64_t v, const VC vc)
{
    if (t->sb_n == SBMAX) mc_engine_error("store buffer overflow");
    t->sb[t->sb_n].a = a; t->sb[t->sb_n].n = n; t->sb[t->sb_n].v = v; vc_copy(t->sb[t->sb_n].vc, vc); t->sb_n++;
}
void tso_capture(Thread *t)
{
    uint64_t nv;
    if (!t->pst_n) return;
    nv = raw_read(t->pst_a, t->pst_n);
    raw_write(t->pst_a, t->pst_n, t->pst_old);
    sb_push(t, t->pst_a, t->pst_n, nv, t->pst_vc);
    if (ctl->verbose) mc_log("T%d store of %#lx to %p stays in its store buffer", (int)(t - T), (unsigned long)nv, (void *)t->pst_a);
    t->pst_n = 0;
}
void tso_flush(Thread *t)
{
    int i;
    tso_capture(t);
    for (i = 0; i < t->sb_n; i++) {
        VC *l = sync_clock((void *)t->sb[i].a, 1);
        raw_write(t->sb[i].a, t->sb[i].n, t->sb[i].v);
        vc_copy(*l, t->sb[i].vc);                      /* release with the clock the thread had when it executed the store */
        addr_bump_epoch(t->sb[i].a);
        ch_publish((void *)t->sb[i].a, t->sb[i].v ^ 0x5b00);
        if (ctl->verbose) mc_log("T%d store buffer drains: %p = %#lx", (int)(t - T), (void *)t->sb[i].a, (unsigned long)t->sb[i].v);
    }
    t->sb_n = 0;
}
static int sb_overlaps(Thread *t, uintptr_t a, size_t n)
{
    int i;
    for (i = 0; i < t->sb_n; i++) if (a < t->sb[i].a + t->sb[i].n && t->sb[i].a < a + n) return 1;
    return 0;
}
/* decide whether the store the calling thread is about to make stays in its buffer */
static int tso_delay(void *a)
{
    Thread *t = &T[my_tid];
    if (!mc_active || !ctl->tso || addr_on_any_stack(a)) return 0;
    if (t->sb_n < SBMAX - 1 && env_choice(2, COST_DEVIATION, "store stays in the store buffer")) return 1;
    tso_flush(t);            /* not delayed: everything older becomes visible first */
    return 0;
}

/* volatile accesses of the legacy volatile + __sync idiom: release store / acquire load (x86-TSO meaning), visible steps */
#define VOLATILE(n, TYPE) \
    void __tsan_volatile_read##n(void *a) { sched_point(OP_ATOMIC, a, 6); if (T[my_tid].sb_n && sb_overlaps(&T[my_tid], (uintptr_t)a, n)) tso_flush(&T[my_tid]); \
        access_bytes(a, n, 0, 1, RA); atomic_load_sync(a, mo_acquire); ch_observe(a, (uint64_t)*(volatile TYPE *)a); note_spin((uintptr_t)a, (uint64_t)*(volatile TYPE *)a, RA); } \
    void __tsan_volatile_write##n(void *a) { Thread *t = &T[my_tid]; sched_point(OP_ATOMIC, a, 7); access_bytes(a, n, 1, 1, RA); \
        if (tso_delay(a)) { t->pst_a = (uintptr_t)a; t->pst_n = n; t->pst_old = raw_read((uintptr_t)a, n); vc_copy(t->pst_vc, t->vc); vc_tick(my_tid); } \
        else { atomic_store_sync(a, mo_release, 0); ch_publish(a, 4); } \
        clear_spin(); } \
    void __tsan_unaligned_volatile_read##n(void *a) { __tsan_volatile_read##n(a); } \
    void __tsan_unaligned_volatile_write##n(void *a) { __tsan_volatile_write##n(a); }
VOLATILE(1, uint8_t) VOLATILE(2, uint16_t) VOLATILE(4, uint32_t) VOLATILE(8, uint64_t)
void __tsan_volatile_read16(void *a) { mon_plain(a, 16, 0, RA); }
void __tsan_volatile_write16(void *a) { mon_plain(a, 16, 1, RA); }
