/* mcrt memory: malloc family on a per-process bump arena (nothing is reused inside one execution, so a freed
 * block stays poisoned in the monitor's shadow and addresses identify blocks), block ledger, range reporting for
 * memcpy/memset/memmove.  Not compiled with -fsanitize=thread. */
#define MCRT_MEM_WRAPPERS
#include "mcrt_int.h"
#include <sys/mman.h>

void *__real_malloc(size_t); void __real_free(void *); void *__real_realloc(void *, size_t); void *__real_calloc(size_t, size_t);
void *__real_memcpy(void *, const void *, size_t); void *__real_memset(void *, int, size_t); void *__real_memmove(void *, const void *, size_t);

#define ARENA_SZ (256ul << 20)
static char *arena, *arena_top;
typedef struct Hdr { size_t size; unsigned magic; int freed; long free_calls; const void *alloc_pc; } Hdr;
#define MAGIC_LIVE 0xA110C8EDu
static long live_blocks, total_allocs;
static int fail_at = -1, fail_all_after;   /* allocation-failure injection (FAULT engine), index counted from arm time */
static long alloc_index;

void mem_init(void)
{
    arena = mmap(NULL, ARENA_SZ, PROT_READ | PROT_WRITE, MAP_PRIVATE | MAP_ANONYMOUS | MAP_NORESERVE, -1, 0);
    if (arena == MAP_FAILED) { perror("arena"); exit(2); }
    arena_top = arena;
}
int mem_is_arena(const void *p) { return arena && (const char *)p >= arena && (const char *)p < arena + ARENA_SZ; }
long mc_blocks_outstanding(void) { return live_blocks; }
static Hdr *hdr_of(const void *p) { Hdr *h; if (!mem_is_arena(p)) return NULL; h = (Hdr *)((char *)p - sizeof(Hdr) - 8); if ((char *)h < arena || h->magic != MAGIC_LIVE) return NULL; return h; }
int mc_block_state(const void *p) { Hdr *h = hdr_of(p); return h ? !h->freed : -1; }
long mc_block_free_count(const void *p) { Hdr *h = hdr_of(p); return h ? h->free_calls : -1; }
void mc_alloc_fail_arm(int k, int all_after) { fail_at = k; fail_all_after = all_after; alloc_index = 0; }
long mc_alloc_count(void) { return alloc_index; }

static void *arena_alloc(size_t n, const void *pc)
{
    Hdr *h; char *p; size_t tot;
    if (!arena) return __real_malloc(n);
    if (fail_at >= 0) { long i = alloc_index++; if (i == fail_at || (fail_all_after && i > fail_at)) return NULL; } else alloc_index++;
    tot = (sizeof(Hdr) + 8 + n + 16 + 15) & ~(size_t)15;        /* 16 bytes of never-handed-out padding after each block */
    if (arena_top + tot > arena + ARENA_SZ) mc_engine_error("arena exhausted");
    h = (Hdr *)arena_top; p = arena_top + sizeof(Hdr) + 8; arena_top += tot;
    h->size = n; h->magic = MAGIC_LIVE; h->freed = 0; h->free_calls = 0; h->alloc_pc = pc;
    live_blocks++; total_allocs++;
    return p;
}

/* malloc'ed memory is filled with a pattern: code that relies on malloc returning zeroes (a malloc0 turned into malloc) shows up as a wrong value */
void *__wrap_malloc(size_t n) { void *p = arena_alloc(n, __builtin_return_address(0)); if (p && arena && mem_is_arena(p)) __real_memset(p, 0xA5, n); return p; }
void *__wrap_calloc(size_t a, size_t b) { void *p = arena_alloc(a * b, __builtin_return_address(0)); if (p) __real_memset(p, 0, a * b); return p; }
void __wrap_free(void *p)
{
    Hdr *h;
    if (!p) return;
    if (!mem_is_arena(p)) { __real_free(p); return; }
    h = hdr_of(p);
    if (!h) { char f[128]; mc_violation("MEM", "bad-free", "free() of %p which is not the start of a live heap block (called from %s)", p, pc_name(__builtin_return_address(0), f, sizeof f)); }
    h->free_calls++;
    if (h->freed) { char f[128], sig[200]; pc_name(__builtin_return_address(0), f, sizeof f); snprintf(sig, sizeof sig, "double-free/%s", f); mc_violation("MEM", sig, "heap block %p (%zu bytes) freed twice (second free from %s)", p, h->size, f); }
    h->freed = 1; live_blocks--;
    if (mc_active) mon_free_block(p, h->size, __builtin_return_address(0));
}
void *__wrap_realloc(void *p, size_t n)
{
    Hdr *h; void *q;
    if (!p) return arena_alloc(n, __builtin_return_address(0));
    if (!mem_is_arena(p)) return __real_realloc(p, n);
    h = hdr_of(p);
    if (!h || h->freed) mc_violation("MEM", "bad-realloc", "realloc() of %p which is not a live heap block", p);
    q = arena_alloc(n, __builtin_return_address(0));
    if (!q) return NULL;
    __real_memcpy(q, p, h->size < n ? h->size : n);
    __wrap_free(p);
    return q;
}

void *__wrap_memcpy(void *d, const void *s, size_t n)
{
    if (mc_active && n) { mon_range(s, n, 0, __builtin_return_address(0)); mon_range(d, n, 1, __builtin_return_address(0)); }
    return __real_memcpy(d, s, n);
}
void *__wrap_memmove(void *d, const void *s, size_t n)
{
    if (mc_active && n) { mon_range(s, n, 0, __builtin_return_address(0)); mon_range(d, n, 1, __builtin_return_address(0)); }
    return __real_memmove(d, s, n);
}
void *__wrap_memset(void *d, int c, size_t n)
{
    if (mc_active && n) mon_range(d, n, 1, __builtin_return_address(0));
    return __real_memset(d, c, n);
}

/* results of getaddrinfo live in the C library's own heap */
#include <netdb.h>
int __real_getaddrinfo(const char *, const char *, const struct addrinfo *, struct addrinfo **);
int __wrap_getaddrinfo(const char *node, const char *service, const struct addrinfo *hints, struct addrinfo **res)
{
    int rc = __real_getaddrinfo(node, service, hints, res); struct addrinfo *ai;
    if (rc == 0 && res) for (ai = *res; ai; ai = ai->ai_next) { mon_fresh_block(ai, sizeof *ai); if (ai->ai_addr) mon_fresh_block(ai->ai_addr, ai->ai_addrlen); if (ai->ai_canonname) mon_fresh_block(ai->ai_canonname, strlen(ai->ai_canonname) + 1); }
    return rc;
}

/* C library functions that write into memory of the code under test: the write is reported to the monitor (the library's own stores are invisible to it).
 * This is what makes a scratch buffer shared between threads visible when it is only ever filled by strcpy / snprintf / inet_ntop / fgets. */
#include <stdarg.h>
#include <arpa/inet.h>
char *__real_strcpy(char *, const char *); char *__real_strncpy(char *, const char *, size_t); char *__real_strcat(char *, const char *); char *__real_strncat(char *, const char *, size_t);
char *__real_fgets(char *, int, FILE *); const char *__real_inet_ntop(int, const void *, char *, socklen_t); int __real_inet_pton(int, const char *, void *);
#define W_RANGE(p, n) do { if (mc_active && (n)) mon_range((p), (n), 1, __builtin_return_address(0)); } while (0)
#define R_RANGE(p, n) do { if (mc_active && (n)) mon_range((p), (n), 0, __builtin_return_address(0)); } while (0)
char *__wrap_strcpy(char *d, const char *s) { size_t n = strlen(s) + 1; R_RANGE(s, n); W_RANGE(d, n); return __real_strcpy(d, s); }
char *__wrap_strncpy(char *d, const char *s, size_t n) { size_t l = strnlen(s, n); R_RANGE(s, l < n ? l + 1 : n); W_RANGE(d, n); return __real_strncpy(d, s, n); }
char *__wrap_strcat(char *d, const char *s) { size_t n = strlen(s) + 1, o = strlen(d); R_RANGE(s, n); W_RANGE(d + o, n); return __real_strcat(d, s); }
char *__wrap_strncat(char *d, const char *s, size_t n) { size_t l = strnlen(s, n), o = strlen(d); R_RANGE(s, l); W_RANGE(d + o, l + 1); return __real_strncat(d, s, n); }
char *__wrap_fgets(char *d, int n, FILE *f) { char *r = __real_fgets(d, n, f); if (r) W_RANGE(d, strlen(d) + 1); return r; }
const char *__wrap_inet_ntop(int af, const void *src, char *dst, socklen_t size) { const char *r = __real_inet_ntop(af, src, dst, size); R_RANGE(src, af == AF_INET ? 4 : 16); if (r) W_RANGE(dst, strlen(dst) + 1); return r; }
int __wrap_inet_pton(int af, const char *src, void *dst) { int r = __real_inet_pton(af, src, dst); if (r == 1) W_RANGE(dst, af == AF_INET ? 4 : 16); return r; }
int __wrap_snprintf(char *d, size_t n, const char *fmt, ...) { va_list ap; int r; va_start(ap, fmt); r = vsnprintf(d, n, fmt, ap); va_end(ap); if (d && n) W_RANGE(d, (size_t)r + 1 < n ? (size_t)r + 1 : n); return r; }
int __wrap_sprintf(char *d, const char *fmt, ...) { va_list ap; int r; va_start(ap, fmt); r = vsprintf(d, fmt, ap); va_end(ap); if (r >= 0) W_RANGE(d, (size_t)r + 1); return r; }
