#!/usr/bin/env python3
"""Regression of the machinery itself: applies every filed seeded change (seeded/*/patch*.diff) and every own mutant
(mutants/*.diff) to a scratch copy of /repo and runs the checks that are recorded as catching it (quick tier, or the tier
given in meta.json "tier"); each must still report a violation.  Works in isolation from /repo and /verif/build
(VERIF_REPO / VERIF_BUILD / VERIF_EVID), so it can run next to other work.  The scratch copy is removed at the end.

usage: seed_matrix.py [-j N] [<seed-dir-name> ...]      exit 0 iff every seed is still detected by every recorded check
"""
import json, os, shutil, subprocess, sys, tempfile
from concurrent.futures import ThreadPoolExecutor

VERIF = os.path.dirname(os.path.dirname(os.path.abspath(__file__)))


def sh(cmd, env=None, cwd=None, timeout=7200):
    r = subprocess.run(cmd, shell=True, stdout=subprocess.PIPE, stderr=subprocess.STDOUT, text=True, env=env, cwd=cwd, timeout=timeout)
    return r.returncode, r.stdout


def one(item):
    name, patch, checks, tier = item
    base = tempfile.mkdtemp(prefix="vp-seed-%s-" % name, dir="/var/tmp")
    repo = os.path.join(base, "repo")
    try:
        rc, out = sh("git -C /repo worktree add --detach %s HEAD" % repo)
        if rc:
            return name, "worktree failed", {}
        rc, out = sh("git apply %s" % patch, cwd=repo)
        if rc:
            return name, "patch does not apply", {}
        env = dict(os.environ, VERIF_REPO=repo, VERIF_BUILD=os.path.join(base, "build"), VERIF_EVID=os.path.join(base, "evidence"), VERIF_REPLAYS=os.path.join(base, "replays"))
        res = {}
        for c in checks:
            rc, out = sh("python3 run.py %s --tier %s" % (c, tier), env=env, cwd=VERIF)
            res[c] = rc
        ok = all(v == 1 for v in res.values())
        return name, "detected" if ok else "MISSED", res
    finally:
        sh("git -C /repo worktree remove --force %s" % repo)
        shutil.rmtree(base, ignore_errors=True)


def main():
    args = sys.argv[1:]
    j = 3
    if args[:1] == ["-j"]:
        j = int(args[1]); args = args[2:]
    items = []
    sd = os.path.join(VERIF, "seeded")
    for d in sorted(os.listdir(sd)):
        mp = os.path.join(sd, d, "meta.json")
        if not os.path.exists(mp) or (args and d not in args):
            continue
        m = json.load(open(mp))
        if not m.get("detected_by"):
            continue
        items.append((d, os.path.join(sd, d, m.get("patch", "patch.diff")), m["detected_by"][:1], m.get("tier", "quick")))
    md = os.path.join(VERIF, "mutants")
    for f in sorted(os.listdir(md)):
        if f.endswith(".diff") and (not args or f in args):
            items.append((f, os.path.join(md, f), [f.split("_")[0]], "quick"))
    bad = 0
    with ThreadPoolExecutor(max_workers=j) as ex:
        for name, status, res in ex.map(one, items):
            print("%-32s %-10s %s" % (name, status, res), flush=True)
            bad += status != "detected"
    print("%d seeded changes / mutants, %d not detected" % (len(items), bad))
    return 1 if bad else 0


if __name__ == "__main__":
    sys.exit(main())
