/* internal interface between the pieces of the mcrt runtime (none of these files is compiled with -fsanitize=thread) */
#ifndef MCRT_INT_H
#define MCRT_INT_H
#define _GNU_SOURCE
#include <stdint.h>
#include <stddef.h>
#include <stdio.h>
#include <stdlib.h>
#include <string.h>
#include <pthread.h>
#include "mc.h"

/* the runtime's own memory operations must not be reported to the monitor (they are --wrap'ed for the code under test) */
void *__real_memcpy(void *, const void *, size_t); void *__real_memset(void *, int, size_t); void *__real_memmove(void *, const void *, size_t);
#define memcpy __real_memcpy
#define memset __real_memset
#define memmove __real_memmove
/* ... and the string functions whose writes are reported for the code under test (mcrt_mem.c): the runtime formats with the v-variants, which are not wrapped */
#include <stdarg.h>
static inline __attribute__((format(printf, 3, 4), unused)) int mcrt_snprintf(char *d, size_t n, const char *fmt, ...) { va_list ap; int r; va_start(ap, fmt); r = vsnprintf(d, n, fmt, ap); va_end(ap); return r; }
char *__real_strcpy(char *, const char *); char *__real_strncpy(char *, const char *, size_t); char *__real_strcat(char *, const char *);
#ifndef MCRT_MEM_WRAPPERS
#define snprintf mcrt_snprintf
#define strcpy __real_strcpy
#define strncpy __real_strncpy
#define strcat __real_strcat
#endif

#define MAXT 8
#define MAXALT 16
#define MAXCHOICE 4096
#define MAXPREFIX 4096
#define SBMAX 4

typedef uint32_t VC[MAXT];

enum {  /* pending operation kinds */
    OP_NONE, OP_START, OP_STEP, OP_ATOMIC, OP_YIELD,
    OP_MUTEX_LOCK, OP_MUTEX_TRYLOCK, OP_MUTEX_UNLOCK, OP_MUTEX_INIT, OP_MUTEX_DESTROY,
    OP_COND_WAIT, OP_COND_BLOCKED, OP_COND_SIGNAL, OP_COND_BROADCAST, OP_COND_MISC,
    OP_RDLOCK, OP_WRLOCK, OP_TRYRDLOCK, OP_TRYWRLOCK, OP_RWUNLOCK, OP_RWMISC,
    OP_CREATE, OP_JOIN, OP_WAITALL, OP_EXIT, OP_KEY,
    OP_SEM_WAIT, OP_SEM_POST, OP_SEM_MISC, OP_IPC, OP_SLEEP, OP_SOCK, OP_POLL, OP_ENV
};

enum { COST_FREE = 0, COST_PREEMPT = 1, COST_SPURIOUS = 2, COST_DEVIATION = 3 };

typedef struct Thread {
    int used, finished, joined, detached, started;
    volatile int go;               /* futex word: baton */
    int pend_kind; void *pend_obj; long pend_arg;
    int (*pend_enabled)(struct Thread *);   /* optional custom enabledness (ipc / sockets) */
    VC vc;
    VC fence_rel;                  /* clock recorded by the last release fence */
    VC pend_acq;                   /* clocks collected by relaxed loads, joined by a later acquire fence */
    int has_fence_rel;
    pthread_t real;
    void *(*fn)(void *); void *arg; void *retval;
    void *stack_lo, *stack_hi;
    /* spin detection */
    uintptr_t spin_addr; uint64_t spin_val; unsigned long spin_ctx; unsigned long spin_epoch; int spin_parked; int spin_repeat; long spin_same;
    /* call-context hash maintained by __tsan_func_entry/exit */
    unsigned long ctx_stack[64]; int ctx_depth;
    long nops;
    uint64_t ch;                   /* causal-history hash: everything this thread has observed so far (order sensitive) */
    long blocked_count;            /* times found not-enabled (reset by mc_mark) */
    long barriers;
    long long_waits;               /* condition waits entered + times blocked on a pthread rwlock (reset by mc_mark) */
    void *tls[32];
    int in_cond_wait_mutex_reacquire;
    void *cond_mutex;
    unsigned long sleep_until;
    void *pend_obj2; int poll_fired, poll_has_timeout;      /* KSIM poll: readiness predicate, virtual time-out */
    int woken;                     /* for cond waiters: set by signal/broadcast/spurious */
    /* x86-TSO store buffer (only with -B): stores held back from the other threads, oldest first */
    struct { uintptr_t a; int n; uint64_t v; VC vc; } sb[SBMAX]; int sb_n;
    uintptr_t pst_a; int pst_n; uint64_t pst_old; VC pst_vc;    /* a volatile store the thread is executing right now and that is to be buffered */
} Thread;

typedef struct Choice { uint8_t n, chosen; uint8_t cost[MAXALT]; uint64_t fp; } Choice;

/* control block shared between the explorer (parent) and one execution (child) */
typedef struct Ctl {
    /* in */
    int prefix_len; uint8_t prefix[MAXPREFIX]; uint8_t prefix_n[MAXPREFIX];
    int horizon; int verbose; long exec_id; int tso;
    long spin_patience;            /* identical observations after which a spinning thread is parked (1 = at once; -S) */
    int lean, bound_p, bound_s, bound_d;   /* -S: alternatives beyond the remaining budgets are not even listed (keeps a 10^7-step spin free of choice points) */
    /* out */
    int ntrace; Choice trace[MAXCHOICE];
    int overflow;
    long steps;
    int violated; char prop[16]; char sig[200]; char desc[3000];
    int engine_error; char engine_msg[400];
    char outcome[256];
    unsigned nontrivial_mask; unsigned exists_mask;
    int finished;
    long log_len; char log[1 << 16];
} Ctl;

extern Ctl *ctl;
extern Thread T[MAXT];
extern int cur;                 /* running thread */
extern int nthreads;
extern int mc_active;           /* 0 while in the explorer/zygote before the execution starts */
extern unsigned long vclock_ms;
extern __thread int my_tid;

/* core */
void sched_point(int kind, void *obj, long arg);
void sched_block_current(void);     /* current thread became non-enabled after executing its op (cond wait): pick another */
int  env_choice(int n, int costkind, const char *what);
void mc_violation(const char *prop, const char *sig, const char *fmt, ...) __attribute__((format(printf, 3, 4), noreturn));
void mc_engine_error(const char *fmt, ...) __attribute__((format(printf, 1, 2), noreturn));
void mc_log(const char *fmt, ...) __attribute__((format(printf, 1, 2)));
int  op_enabled(Thread *t);
void thread_finish_current(void);
const char *addr_name(const void *addr, char *buf, size_t sz);
const char *pc_name(const void *pc, char *buf, size_t sz);
uint64_t model_fingerprint(void);
uint32_t pthread_model_fp(void);
/* causal-history hashing (state fingerprints for pruning) */
uint64_t ch_mix(uint64_t a, uint64_t b);
void ch_note(uint64_t v);                 /* the current thread observed v (result of a call, value read) */
void ch_observe(void *obj, uint64_t v);   /* ... observed v at obj: mixes the object's history */
void ch_publish(void *obj, uint64_t v);   /* the current thread changed obj (value v): object's history absorbs the thread's */
extern uint64_t ch_objects_acc;           /* order-independent accumulator over all object histories */
void pthread_model_describe_block(Thread *t, char *buf, size_t sz);
void run_key_destructors(int tid);

/* monitor */
void mon_init(void);
void mon_plain(const void *addr, size_t size, int is_write, const void *pc);
void mon_range(const void *addr, size_t size, int is_write, const void *pc);
void mon_free_block(const void *addr, size_t size, const void *pc);
void mon_fresh_block(const void *addr, size_t size);
void vc_join(VC a, const VC b);
void vc_copy(VC a, const VC b);
void vc_tick(int tid);
void mon_acquire_obj(void *obj);      /* join the sync clock of a model object into the current thread */
void mon_release_obj(void *obj);      /* publish the current thread's clock on a model object */
void mon_release_obj_join(void *obj);
VC  *sync_clock(void *obj, int create);
void sync_clock_drop(void *obj);
int  addr_on_any_stack(const void *a);
unsigned long addr_write_epoch(uintptr_t a);
void addr_bump_epoch(uintptr_t a);
void tso_capture(Thread *t);          /* store buffer: take a just executed, to-be-buffered volatile store back out of memory */
void tso_flush(Thread *t);            /* make every buffered store of t visible, oldest first */

/* memory */
void mem_init(void);
int  mem_is_arena(const void *p);

#endif
