/* mcrt: named semaphores / POSIX shared memory under the controlled scheduler.  The kernel objects are real
 * (/dev/shm); the wrappers add scheduling points, enabledness (sem_getvalue), happens-before edges, causal-history
 * hashing, alias registration for several mappings of one object, and the IPC-name ledger. */
#include "mcrt_int.h"
#include <errno.h>
#include <fcntl.h>
#include <semaphore.h>
#include <stdarg.h>
#include <sys/mman.h>
#include <sys/stat.h>
#include <unistd.h>

extern void ipcnames_remember(const char *path);

int __real_shm_open(const char *, int, mode_t); int __real_shm_unlink(const char *);
sem_t *__real_sem_open(const char *, int, ...); int __real_sem_close(sem_t *); int __real_sem_unlink(const char *);
int __real_sem_wait(sem_t *); int __real_sem_trywait(sem_t *); int __real_sem_post(sem_t *); int __real_sem_getvalue(sem_t *, int *);
int __real_ftruncate(int, off_t); int __real_fstat(int, struct stat *); void *__real_mmap(void *, size_t, int, int, int, off_t); int __real_munmap(void *, size_t); int __real_close(int);

static char ns_obj;                 /* stands for the IPC name space in the happens-before / causal-history bookkeeping */
long mc_ipc_calls;

static uint64_t hstr(const char *s) { uint64_t h = 1469598103934665603ull; while (*s) { h ^= (unsigned char)*s++; h *= 1099511628211ull; } return h; }
static void ns_event(const char *name, int op, long result)
{
    mon_acquire_obj(&ns_obj);
    ch_publish(&ns_obj, ch_mix(hstr(name), (uint64_t)(op * 1000003 + result)));
    mon_release_obj_join(&ns_obj);
    ch_note((uint64_t)result);
    mc_ipc_calls++;
}

/* ---------------- alias table: several mappings of one shm object share one shadow ---------------- */
typedef struct { dev_t dev; ino_t ino; char *base; size_t len; char *canon; } Map;
static Map maps[32]; static int nmaps;
const void *mcrt_canon_addr(const void *a)
{
    int i;
    for (i = 0; i < nmaps; i++) if ((const char *)a >= maps[i].base && (const char *)a < maps[i].base + maps[i].len) return maps[i].canon + ((const char *)a - maps[i].base);
    return a;
}

static int sem_enabled(Thread *t) { int v = 0; if (__real_sem_getvalue((sem_t *)t->pend_obj, &v) != 0) return 1; return v > 0; }

sem_t *__wrap_sem_open(const char *name, int oflag, ...)
{
    mode_t mode = 0; unsigned value = 0; sem_t *r; int e;
    if (oflag & O_CREAT) { va_list ap; va_start(ap, oflag); mode = va_arg(ap, mode_t); value = va_arg(ap, unsigned); va_end(ap); }
    sched_point(OP_IPC, NULL, 1);
    if (oflag & O_CREAT) { char p[80]; snprintf(p, sizeof p, "/dev/shm/sem.%s", name[0] == '/' ? name + 1 : name); ipcnames_remember(p); }
    r = (oflag & O_CREAT) ? __real_sem_open(name, oflag, mode, value) : __real_sem_open(name, oflag);
    e = errno;
    ns_event(name, 1 + (oflag & (O_CREAT | O_EXCL)), r == SEM_FAILED ? -e : (long)value + 1);
    if (r != SEM_FAILED) mon_acquire_obj(r);
    errno = e;
    return r;
}
int __wrap_sem_close(sem_t *s) { int r, e; sched_point(OP_SEM_MISC, s, 0); r = __real_sem_close(s); e = errno; ch_note((uint64_t)r); mc_ipc_calls++; errno = e; return r; }
int __wrap_sem_unlink(const char *name) { int r, e; sched_point(OP_IPC, NULL, 2); r = __real_sem_unlink(name); e = errno; ns_event(name, 20, r == 0 ? 0 : -e); errno = e; return r; }
int __wrap_sem_wait(sem_t *s)
{
    int r, e; Thread *t = &T[my_tid];
    if (!mc_active) return __real_sem_wait(s);
    t->pend_enabled = sem_enabled;
    sched_point(OP_SEM_WAIT, s, 0);
    t->pend_enabled = NULL;
    r = __real_sem_trywait(s); e = errno;
    if (r != 0) mc_engine_error("sem_wait scheduled while the semaphore has no units (errno %d)", e);
    mon_acquire_obj(s); ch_publish(s, 11); T[my_tid].barriers++; mc_ipc_calls++;
    return 0;
}
int __wrap_sem_trywait(sem_t *s) { int r, e; sched_point(OP_SEM_MISC, s, 1); r = __real_sem_trywait(s); e = errno; if (r == 0) { mon_acquire_obj(s); ch_publish(s, 12); } else ch_note(0xEA); mc_ipc_calls++; errno = e; return r; }
int __wrap_sem_post(sem_t *s) { int r, e; sched_point(OP_SEM_POST, s, 0); mon_release_obj_join(s); r = __real_sem_post(s); e = errno; T[my_tid].barriers++; mc_ipc_calls++; errno = e; return r; }
int __wrap_sem_getvalue(sem_t *s, int *v) { int r; sched_point(OP_SEM_MISC, s, 2); r = __real_sem_getvalue(s, v); mon_acquire_obj(s); ch_note((uint64_t)*v); return r; }

int __wrap_shm_open(const char *name, int oflag, mode_t mode)
{
    int r, e;
    sched_point(OP_IPC, NULL, 3);
    if (oflag & O_CREAT) { char p[80]; snprintf(p, sizeof p, "/dev/shm/%s", name[0] == '/' ? name + 1 : name); ipcnames_remember(p); }
    r = __real_shm_open(name, oflag, mode); e = errno;
    ns_event(name, 30 + (oflag & (O_CREAT | O_EXCL)), r < 0 ? -e : 1);
    errno = e;
    return r;
}
int __wrap_shm_unlink(const char *name) { int r, e; sched_point(OP_IPC, NULL, 4); r = __real_shm_unlink(name); e = errno; ns_event(name, 40, r == 0 ? 0 : -e); errno = e; return r; }
int __wrap_ftruncate(int fd, off_t len) { int r, e; sched_point(OP_IPC, NULL, 5); r = __real_ftruncate(fd, len); e = errno; ns_event("ftruncate", 50, r == 0 ? (long)len : -e); errno = e; return r; }
int __wrap_fstat(int fd, struct stat *st) { int r, e; sched_point(OP_IPC, NULL, 6); r = __real_fstat(fd, st); e = errno; ns_event("fstat", 60, r == 0 ? (long)st->st_size : -e); errno = e; return r; }
void *__wrap_mmap(void *addr, size_t len, int prot, int flags, int fd, off_t off)
{
    void *r; int e;
    if (!mc_active || fd < 0) return __real_mmap(addr, len, prot, flags, fd, off);
    sched_point(OP_IPC, NULL, 7);
    r = __real_mmap(addr, len, prot, flags, fd, off); e = errno;
    if (r != MAP_FAILED && (flags & MAP_SHARED)) {
        struct stat st; int i;
        if (__real_fstat(fd, &st) == 0 && nmaps < 32) {
            Map *m = &maps[nmaps++]; m->dev = st.st_dev; m->ino = st.st_ino; m->base = r; m->len = len; m->canon = r;
            for (i = 0; i < nmaps - 1; i++) if (maps[i].dev == st.st_dev && maps[i].ino == st.st_ino) { m->canon = maps[i].canon; break; }
        }
    }
    ns_event("mmap", 70, r == MAP_FAILED ? -e : (long)len);
    errno = e;
    return r;
}
int __wrap_munmap(void *addr, size_t len)
{
    int r, e, i;
    if (!mc_active) return __real_munmap(addr, len);
    sched_point(OP_IPC, NULL, 8);
    for (i = 0; i < nmaps; i++) if (maps[i].base == addr) { maps[i].base = NULL; maps[i].len = 0; }
    r = __real_munmap(addr, len); e = errno; ch_note((uint64_t)r); mc_ipc_calls++; errno = e;
    return r;
}
int __wrap_close(int fd) { int r, e; if (!mc_active) return __real_close(fd); sched_point(OP_IPC, NULL, 9); r = __real_close(fd); e = errno; ch_note((uint64_t)r); errno = e; return r; }
