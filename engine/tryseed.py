#!/usr/bin/env python3
"""Runs checks against one candidate change in isolation (scratch worktree of /repo under /var/tmp, own build and
evidence directories), printing the exit code and the violation signatures of each.  /repo and /verif/build are untouched.

usage: tryseed.py <patch.diff | -> <tier> <Cxx> [<Cxx> ...]        ("-": no change, i.e. a baseline run in isolation)
"""
import os, re, shutil, subprocess, sys, tempfile

VERIF = os.path.dirname(os.path.dirname(os.path.abspath(__file__)))


def sh(cmd, env=None, cwd=None, timeout=7200):
    r = subprocess.run(cmd, shell=True, stdout=subprocess.PIPE, stderr=subprocess.STDOUT, text=True, env=env, cwd=cwd, timeout=timeout)
    return r.returncode, r.stdout


def main():
    patch, tier, checks = (os.path.abspath(sys.argv[1]) if sys.argv[1] != "-" else None), sys.argv[2], sys.argv[3:]
    base = tempfile.mkdtemp(prefix="vp-try-", dir="/var/tmp")
    repo = os.path.join(base, "repo")
    try:
        rc, out = sh("git -C /repo worktree add --detach %s HEAD" % repo)
        if rc:
            print("worktree failed", out); return 2
        rc, out = sh("git apply %s" % patch, cwd=repo) if patch else (0, "")
        if rc:
            print("patch does not apply:", out); return 2
        env = dict(os.environ, VERIF_REPO=repo, VERIF_BUILD=os.path.join(base, "build"), VERIF_EVID=os.path.join(base, "evidence"), VERIF_REPLAYS=os.path.join(base, "replays"))
        for c in checks:
            rc, out = sh("python3 run.py %s --tier %s" % (c, tier), env=env, cwd=VERIF)
            sigs = re.findall(r"^  signature: (\S+)", out, re.M)
            print("%s rc=%d %s" % (c, rc, " ".join(sorted(set(sigs))[:10])), flush=True)
            if rc not in (0, 1):
                print(out[-1500:])
    finally:
        sh("git -C /repo worktree remove --force %s" % repo)
        shutil.rmtree(base, ignore_errors=True)
    return 0


if __name__ == "__main__":
    sys.exit(main())
