/* Harness-side API of the controlled scheduler / happens-before monitor (engine/mcrt.c). */
#ifndef VERIF_MC_H
#define VERIF_MC_H
#include <stddef.h>

#ifdef __cplusplus
extern "C" {
#endif

/* functions with this attribute are not instrumented: use for harness bookkeeping that is unsynchronised by design
 * (safe because the scheduler serialises execution) */
#define MC_NOINSTR __attribute__((no_sanitize("thread"), noinline))

/* one explorable program: setup runs in the main thread before anything is explored (inside the forked execution),
 * body runs as thread 0; it creates the other threads (through the library or mc_thread_create) */
typedef struct McHarness {
    const char *name;
    void (*body)(int argc, char **argv);
    const char *help;
} McHarness;

typedef struct McBounds {
    int preemptions;      /* max preemptive context switches per execution */
    int spurious;         /* max spurious condition-variable wake-ups per execution */
    int deviations;       /* max environment deviations (injected EINTR, alloc failure ...) per execution */
    int horizon;          /* max visible steps per execution (livelock guard) */
    long max_execs;       /* cap on executions (0 = none); hitting it reports the bound as not completed */
    double deadline_s;    /* wall-clock budget (0 = none) */
    long spin_patience;   /* -S n: a spinning thread is parked only after n identical observations (default 1) */
    int tso;              /* -B: x86-TSO store buffers (a delayed store counts as a deviation) */
} McBounds;

/* explicit visible step: lets the scheduler switch threads here (needed inside critical sections) */
void mc_step(void);
/* report a violation of `prop` and end this execution.  sig must name the failing thing (stable across schedules) */
void mc_fail(const char *prop, const char *sig, const char *fmt, ...) __attribute__((format(printf, 3, 4)));
/* harness assertion helper */
#define MC_CHECK(cond, prop, sig, ...) do { if (!(cond)) mc_fail(prop, sig, __VA_ARGS__); } while (0)
/* final outcome string of this execution (distinct outcomes are counted by the explorer) */
void mc_outcome(const char *fmt, ...) __attribute__((format(printf, 1, 2)));
/* mark that the interesting thing happened in this execution (contention, hand-over, wrap ...) - non-vacuity counter */
void mc_nontrivial(int slot);
/* existential facts over the whole exploration: mc_exists(slot) records that some execution reached it */
void mc_exists(int slot);
/* give an address a name for race reports */
void mc_name(const void *addr, size_t len, const char *name);
/* include a harness observable in the state fingerprint */
void mc_observe(int slot, long value);
/* thread creation directly through the model (harness threads that are not library threads) */
int  mc_thread_create(void *(*fn)(void *), void *arg);      /* returns thread index */
void mc_thread_join(int tid);
int  mc_self(void);
int  mc_is_free_running(void);                               /* 1 when linked with engine/mcfree.c (conformance pass on real glibc): model introspection is unavailable */
long mc_exec_id(void);                                       /* unique per forked execution: use it in IPC names so that executions never see each other's leftovers */
void mc_wait_all(void);                                      /* returns when every other thread (detached ones included) has finished */
/* model introspection for oracles */
int  mc_mutex_owner(const void *pthread_mutex);              /* -1 free, -2 unknown object, else thread index */
int  mc_in_call_blocked(void);                               /* number of times the calling thread was descheduled as not-enabled since mc_mark() */
void mc_mark(void);
int  mc_long_waits(void);                                    /* condition waits entered / blocked pthread rwlock acquisitions by the calling thread since mc_mark() */
long mc_barrier_count(void);                                 /* full barriers (seq_cst op/fence, mutex op) executed by the calling thread so far */
long mc_blocks_outstanding(void);                            /* heap blocks allocated through the wrapped allocator and not yet freed */
int  mc_block_state(const void *p);                          /* 1 live, 0 freed, -1 not a block start */
long mc_block_free_count(const void *p);                     /* times free() was called on this block start */
long mc_keys_live(void);                                     /* model pthread keys currently allocated */
unsigned long mc_virtual_ms(void);                           /* virtual clock */
/* environment deviation point for harness-level fault injection: returns 0 (default) or 1..n-1 (costs one deviation) */
int  mc_env_choice(int n, const char *what);

/* entry point provided by mcrt: parses the command line, explores the named harness */
int mc_main(int argc, char **argv, const McHarness *harnesses, int nharnesses);

#ifdef __cplusplus
}
#endif
#endif
