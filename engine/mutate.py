#!/usr/bin/env python3
"""Mutation campaign against the checks themselves (evaluates the machinery, decides no property).

Generates single-token mutants of library source files (relational / logical operator flips, constant +-1, TRUE<->FALSE,
dropped simple statements), applies each to a scratch worktree of /repo, and runs the quick check(s) of the given
properties in isolation (VERIF_REPO / VERIF_BUILD / VERIF_EVID).  Reports, per mutant: build error, detected (exit 1),
engine error (exit 2) or survived (exit 0).  Survivors are candidates for equivalent mutants or for gaps in the checks.

usage: mutate.py <out.jsonl> <workers> <sample-per-file> <seed> <Cxx[,Cyy]:src/file.c> [...]
"""
import json, os, random, re, shutil, subprocess, sys, tempfile
from concurrent.futures import ThreadPoolExecutor

VERIF = os.path.dirname(os.path.dirname(os.path.abspath(__file__)))

SUBS = [(r"<=", "<"), (r">=", ">"), (r"(?<![<>=!-])<(?![<=])", "<="), (r"(?<![<>=!-])>(?![>=])", ">="), (r"==", "!="), (r"!=", "=="),
        (r"&&", "||"), (r"\|\|", "&&"), (r"\bTRUE\b", "FALSE"), (r"\bFALSE\b", "TRUE"), (r"\+ 1\b", "+ 2"), (r"- 1\b", "- 2"), (r"\+\+", "--"), (r"\+=", "-=")]


def candidates(path):
    """(line number, description, new line text) for every applicable single change in code lines (comments and preprocessor lines skipped)"""
    out = []
    lines = open(path, errors="replace").read().split("\n")
    in_comment = False
    for i, ln in enumerate(lines):
        s = ln.strip()
        if in_comment:
            if "*/" in s:
                in_comment = False
            continue
        if s.startswith("/*"):
            if "*/" not in s:
                in_comment = True
            continue
        if not s or s.startswith("#") or s.startswith("*") or s.startswith("//") or "P_ERROR" in s or "P_WARNING" in s or "p_error_set_error" in s or '"' in s:
            continue
        for pat, rep in SUBS:
            for m in re.finditer(pat, ln):
                out.append((i, "%s -> %s at col %d" % (m.group(0), rep, m.start()), ln[:m.start()] + rep + ln[m.end():]))
        if re.match(r"^\s+[A-Za-z_][\w\->\.\[\]\(\) \*&]*(=|\()[^;{}]*;\s*$", ln) and not re.match(r"^\s*(return|break|continue|goto|if|else|while|for|switch|case)\b", ln) and "=" in ln and not re.match(r"^\s*\w+\s+\**\w+\s*=", ln):
            out.append((i, "statement dropped", re.match(r"^\s*", ln).group(0) + ";"))
    return lines, out


def sh(cmd, env=None, cwd=None, timeout=3600):
    try:
        r = subprocess.run(cmd, shell=True, stdout=subprocess.PIPE, stderr=subprocess.STDOUT, text=True, env=env, cwd=cwd, timeout=timeout)
        return r.returncode, r.stdout
    except subprocess.TimeoutExpired:
        return 124, "TIMEOUT"


def worker(wid, tasks, outp):
    base = tempfile.mkdtemp(prefix="vp-mut-%d-" % wid, dir="/var/tmp")
    repo = os.path.join(base, "repo")
    sh("git -C /repo worktree add --detach %s HEAD" % repo)
    env = dict(os.environ, VERIF_REPO=repo, VERIF_BUILD=os.path.join(base, "build"), VERIF_EVID=os.path.join(base, "evidence"), VERIF_REPLAYS=os.path.join(base, "replays"))
    try:
        for (props, rel, lineno, desc, newline) in tasks:
            path = os.path.join(repo, rel)
            orig = open(path, errors="replace").read()
            lines = orig.split("\n")
            old = lines[lineno]
            lines[lineno] = newline
            open(path, "w").write("\n".join(lines))
            res = {}
            for p in props:
                rc, out = sh("python3 run.py %s --tier quick" % p, env=env, cwd=VERIF, timeout=1800)
                sigs = re.findall(r"^  signature: (\S+)", out, re.M)
                kind = "detected" if rc == 1 else "survived" if rc == 0 else ("build-error" if "error:" in out else "engine-error")
                res[p] = dict(rc=rc, kind=kind, sigs=sigs[:3], tail=out[-300:] if rc not in (0, 1) else "")
                if rc == 1:
                    break
            open(path, "w").write(orig)
            with open(outp, "a") as f:
                f.write(json.dumps(dict(file=rel, line=lineno + 1, desc=desc, old=old.strip()[:160], new=newline.strip()[:160], res=res)) + "\n")
    finally:
        sh("git -C /repo worktree remove --force %s" % repo)
        shutil.rmtree(base, ignore_errors=True)


def main():
    outp, workers, nper, seed = sys.argv[1], int(sys.argv[2]), int(sys.argv[3]), int(sys.argv[4])
    rnd = random.Random(seed)
    tasks = []
    for spec in sys.argv[5:]:
        props, rel = spec.split(":")
        lines, cands = candidates(os.path.join("/repo", rel))
        rnd.shuffle(cands)
        for (i, d, nl) in cands[:nper]:
            tasks.append((props.split(","), rel, i, d, nl))
    rnd.shuffle(tasks)
    chunks = [tasks[k::workers] for k in range(workers)]
    with ThreadPoolExecutor(max_workers=workers) as ex:
        list(ex.map(lambda a: worker(a[0], a[1], outp), enumerate(chunks)))
    rows = [json.loads(l) for l in open(outp)]
    cnt = {}
    for r in rows:
        k = "detected" if any(v["kind"] == "detected" for v in r["res"].values()) else sorted(v["kind"] for v in r["res"].values())[-1]
        cnt[k] = cnt.get(k, 0) + 1
    print(cnt)


if __name__ == "__main__":
    main()
