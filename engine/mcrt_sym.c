/* function names for report signatures: reads the executable's own .symtab (binaries are linked -no-pie) */
#include "mcrt_int.h"
#include <elf.h>
#include <fcntl.h>
#include <sys/mman.h>
#include <sys/stat.h>
#include <unistd.h>

typedef struct { uintptr_t addr; size_t size; const char *name; } Sym;
static Sym *syms; static int nsyms; static int loaded;

static int cmp(const void *a, const void *b) { const Sym *x = a, *y = b; return x->addr < y->addr ? -1 : x->addr > y->addr; }

static void load(void)
{
    int fd; struct stat st; char *m; Elf64_Ehdr *eh; Elf64_Shdr *sh; int i;
    loaded = 1;
    fd = open("/proc/self/exe", O_RDONLY); if (fd < 0) return;
    if (fstat(fd, &st) < 0) { close(fd); return; }
    m = mmap(NULL, st.st_size, PROT_READ, MAP_PRIVATE, fd, 0); close(fd);
    if (m == MAP_FAILED) return;
    eh = (Elf64_Ehdr *)m; sh = (Elf64_Shdr *)(m + eh->e_shoff);
    for (i = 0; i < eh->e_shnum; i++) if (sh[i].sh_type == SHT_SYMTAB) {
        Elf64_Sym *s = (Elf64_Sym *)(m + sh[i].sh_offset); int n = (int)(sh[i].sh_size / sizeof *s), k;
        const char *str = m + sh[sh[i].sh_link].sh_offset;
        syms = malloc(sizeof(Sym) * (n + 1));
        for (k = 0; k < n; k++) if (ELF64_ST_TYPE(s[k].st_info) == STT_FUNC && s[k].st_value) { syms[nsyms].addr = s[k].st_value; syms[nsyms].size = s[k].st_size; syms[nsyms].name = str + s[k].st_name; nsyms++; }
        qsort(syms, nsyms, sizeof(Sym), cmp);
        break;
    }
}

const char *pc_name(const void *pc, char *buf, size_t sz)
{
    int lo = 0, hi; uintptr_t a = (uintptr_t)pc;
    if (!loaded) load();
    hi = nsyms - 1;
    while (lo <= hi) { int mid = (lo + hi) / 2; if (syms[mid].addr > a) hi = mid - 1; else lo = mid + 1; }
    if (hi >= 0 && a < syms[hi].addr + (syms[hi].size ? syms[hi].size : 4096)) {
        const char *n = syms[hi].name; size_t l = strcspn(n, ".");      /* strip .constprop / .isra suffixes */
        if (l >= sz) l = sz - 1;
        memcpy(buf, n, l); buf[l] = 0;
        return buf;
    }
    snprintf(buf, sz, "pc:%p", pc);
    return buf;
}
