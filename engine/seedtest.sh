#!/bin/sh
# usage: engine/seedtest.sh <patch.diff> <tier> <prop> [<prop>...]   applies the patch to /repo, runs the checks, reverts
P=$(readlink -f "$1"); T=$2; shift 2
cd /verif
git -C /repo apply "$P" || { echo "PATCH DOES NOT APPLY"; exit 3; }
for id in "$@"; do
  python3 run.py $id --tier $T > /tmp/seedtest.$$.log 2>&1; rc=$?
  echo "== $id rc=$rc: $(grep -c '^VIOLATION' /tmp/seedtest.$$.log) violation line(s)"; grep -A1 '^VIOLATION' /tmp/seedtest.$$.log | grep signature | head -5
  [ $rc -ge 2 ] && tail -5 /tmp/seedtest.$$.log
done
rm -f /tmp/seedtest.$$.log
git -C /repo checkout -- .
git -C /verif checkout -- evidence 2>/dev/null
