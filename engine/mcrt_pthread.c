/* mcrt POSIX threads model: mutex, condition variable, rwlock, keys, create/join/exit, yield, sleep.
 * Blocking is modelled (enabledness), never executed.  Contract violations by the caller (the library) are reported.
 * Not compiled with -fsanitize=thread. */
#include "mcrt_int.h"
#include <errno.h>
#include <sched.h>
#include <time.h>

extern int mcrt_create_thread(pthread_t *out, const pthread_attr_t *attr, void *(*fn)(void *), void *arg);
extern int mcrt_find_thread(pthread_t th);
extern void mcrt_join_thread(int id, void **ret);
extern const char *op_name(int k);

enum { K_MUTEX = 1, K_COND, K_RWLOCK };
typedef struct Obj {
    int kind; void *addr;
    int owner;                 /* mutex: holder or -1; rwlock: writer or -1 */
    int readers; int rd_by[MAXT];
    int mtype, depth;          /* mutex: 0 normal, 1 recursive (depth counts the extra locks of the owner), 2 error checking */
    int prefer_writer;         /* rwlock created with PTHREAD_RWLOCK_PREFER_WRITER_NONRECURSIVE_NP: new readers wait behind a waiting writer */
    int waiters[MAXT], nwait;  /* cond */
    int destroyed;
} Obj;
#define NOBJ 256
static Obj objs[NOBJ]; static int nobjs;
static long live_objs[4];

static Obj *obj_find(void *addr, int kind)
{
    int i;
    for (i = nobjs - 1; i >= 0; i--) if (objs[i].addr == addr && objs[i].kind == kind && !objs[i].destroyed) return &objs[i];
    return NULL;
}
static Obj *obj_new(void *addr, int kind)
{
    Obj *o;
    if (nobjs >= NOBJ) mc_engine_error("model object table full");
    o = &objs[nobjs++]; memset(o, 0, sizeof *o);
    o->kind = kind; o->addr = addr; o->owner = -1; live_objs[kind]++;
    return o;
}
static Obj *obj_need(void *addr, int kind, const char *what)
{
    Obj *o = obj_find(addr, kind);
    static const char *KN[] = {"", "mutex", "condition variable", "rwlock"};
    if (!o) {
        char sig[96]; snprintf(sig, sizeof sig, "posix/uninitialised-%s/%s", KN[kind], what);
        mc_violation("POSIX", sig, "%s called on a %s at %p that was never initialised with pthread_*_init (or was destroyed): undefined behaviour - wrong pointer handed to pthreads?", what, KN[kind], addr);
    }
    return o;
}

uint32_t pthread_model_fp(void)
{
    uint32_t h = 5381; int i, j;
    for (i = 0; i < nobjs; i++) { Obj *o = &objs[i]; if (o->destroyed) continue; h = h * 33 + (uint32_t)(o->owner + 2); h = h * 33 + (uint32_t)o->readers; for (j = 0; j < o->nwait; j++) h = h * 33 + (uint32_t)o->waiters[j]; }
    return h;
}

int mc_mutex_owner(const void *m) { Obj *o = obj_find((void *)m, K_MUTEX); return o ? o->owner : -2; }
long mc_model_live(int kind) { return live_objs[kind]; }

static int writer_waits(Obj *o) { int i; for (i = 0; i < nthreads; i++) if (T[i].used && !T[i].finished && T[i].pend_kind == OP_WRLOCK && T[i].pend_obj == o->addr) return 1; return 0; }
int op_enabled(Thread *t)
{
    Obj *o;
    if (t->pend_enabled) return t->pend_enabled(t);
    switch (t->pend_kind) {
    case OP_MUTEX_LOCK: o = obj_find(t->pend_obj, K_MUTEX); return o ? o->owner == -1 : 1;
    case OP_COND_BLOCKED: {
        if (!t->woken) return 0;
        o = obj_find(t->cond_mutex, K_MUTEX); return o ? o->owner == -1 : 1; }
    case OP_RDLOCK: o = obj_find(t->pend_obj, K_RWLOCK); return o ? (o->owner == -1 && !(o->prefer_writer && o->readers > 0 && writer_waits(o))) : 1;
    case OP_WRLOCK: o = obj_find(t->pend_obj, K_RWLOCK); return o ? (o->owner == -1 && o->readers == 0) : 1;
    case OP_JOIN: return ((Thread *)t->pend_obj)->finished;
    case OP_WAITALL: { int i; for (i = 0; i < nthreads; i++) if (&T[i] != t && T[i].used && !T[i].finished) return 0; return 1; }
    case OP_SLEEP: return 1;
    default: return 1;
    }
}

void pthread_model_describe_block(Thread *t, char *buf, size_t sz)
{
    Obj *o;
    switch (t->pend_kind) {
    case OP_MUTEX_LOCK: o = obj_find(t->pend_obj, K_MUTEX); snprintf(buf, sz, "waits for mutex %p held by T%d", t->pend_obj, o ? o->owner : -9); break;
    case OP_COND_BLOCKED: snprintf(buf, sz, "%s on condition variable %p", t->woken ? "woken, re-acquiring the mutex after waiting" : "waits (not signalled)", t->pend_obj); break;
    case OP_RDLOCK: case OP_WRLOCK: o = obj_find(t->pend_obj, K_RWLOCK); snprintf(buf, sz, "waits for %s lock on rwlock %p (writer T%d, %d readers)", t->pend_kind == OP_RDLOCK ? "read" : "write", t->pend_obj, o ? o->owner : -9, o ? o->readers : -9); break;
    case OP_JOIN: snprintf(buf, sz, "joins T%ld", t->pend_arg); break;
    case OP_WAITALL: snprintf(buf, sz, "main thread waits for all threads to finish"); break;
    default: snprintf(buf, sz, "at %s%s", op_name(t->pend_kind), t->spin_parked ? " (spinning)" : ""); break;
    }
}

/* ------------------------------------------------------------------ mutex */
int __wrap_pthread_mutex_init(pthread_mutex_t *m, const pthread_mutexattr_t *a)
{
    Obj *o; int type = PTHREAD_MUTEX_DEFAULT;
    sched_point(OP_MUTEX_INIT, m, 0);
    if (obj_find(m, K_MUTEX)) mc_violation("POSIX", "posix/mutex-reinit", "pthread_mutex_init on an already initialised mutex %p", (void *)m);
    o = obj_new(m, K_MUTEX);
    if (a && pthread_mutexattr_gettype(a, &type) == 0) o->mtype = type == PTHREAD_MUTEX_RECURSIVE ? 1 : type == PTHREAD_MUTEX_ERRORCHECK ? 2 : 0;
    return 0;
}
int __wrap_pthread_mutex_destroy(pthread_mutex_t *m)
{
    Obj *o;
    sched_point(OP_MUTEX_DESTROY, m, 0);
    o = obj_need(m, K_MUTEX, "pthread_mutex_destroy");
    if (o->owner != -1) mc_violation("POSIX", "posix/mutex-destroy-locked", "pthread_mutex_destroy of a locked mutex (held by T%d)", o->owner);
    o->destroyed = 1; live_objs[K_MUTEX]--; sync_clock_drop(m);
    return 0;
}
int __wrap_pthread_mutex_lock(pthread_mutex_t *m)
{
    Obj *o;
    if (!mc_active) { o = obj_find(m, K_MUTEX); if (o) o->owner = my_tid; return 0; }
    o = obj_need(m, K_MUTEX, "pthread_mutex_lock");
    if (o->owner == my_tid && o->mtype) { sched_point(OP_STEP, NULL, 0); if (o->mtype == 2) return EDEADLK; o->depth++; return 0; }     /* a normal mutex locked again by its owner: never enabled -> reported as a deadlock */
    sched_point(OP_MUTEX_LOCK, m, 0);
    o = obj_need(m, K_MUTEX, "pthread_mutex_lock");
    if (o->owner != -1) mc_engine_error("mutex lock scheduled while held");
    o->owner = my_tid; mon_acquire_obj(m); T[my_tid].barriers++;
    return 0;
}
int __wrap_pthread_mutex_trylock(pthread_mutex_t *m)
{
    Obj *o;
    if (!mc_active) { o = obj_find(m, K_MUTEX); if (o && o->owner == -1) { o->owner = my_tid; return 0; } return EBUSY; }
    obj_need(m, K_MUTEX, "pthread_mutex_trylock");
    sched_point(OP_MUTEX_TRYLOCK, m, 0);
    o = obj_need(m, K_MUTEX, "pthread_mutex_trylock");
    if (o->owner == my_tid && o->mtype == 1) { o->depth++; return 0; }
    if (o->owner != -1) { ch_note(0xEB); return EBUSY; }
    o->owner = my_tid; mon_acquire_obj(m); T[my_tid].barriers++;
    return 0;
}
int __wrap_pthread_mutex_unlock(pthread_mutex_t *m)
{
    Obj *o;
    if (!mc_active) { o = obj_find(m, K_MUTEX); if (o) o->owner = -1; return 0; }
    obj_need(m, K_MUTEX, "pthread_mutex_unlock");
    sched_point(OP_MUTEX_UNLOCK, m, 0);
    o = obj_need(m, K_MUTEX, "pthread_mutex_unlock");
    if (o->owner != my_tid) mc_violation("POSIX", "posix/mutex-unlock-not-owner", "pthread_mutex_unlock by T%d of mutex %p %s", my_tid, (void *)m, o->owner == -1 ? "that is not locked" : "held by another thread");
    if (o->depth > 0) { o->depth--; return 0; }
    mon_release_obj(m); T[my_tid].barriers++;
    o->owner = -1;
    return 0;
}

/* ------------------------------------------------------------------ condition variable */
int __wrap_pthread_cond_init(pthread_cond_t *c, const pthread_condattr_t *a) { (void)a; sched_point(OP_COND_MISC, c, 0); if (!obj_find(c, K_COND)) obj_new(c, K_COND); return 0; }
int __wrap_pthread_cond_destroy(pthread_cond_t *c)
{
    Obj *o; sched_point(OP_COND_MISC, c, 1);
    o = obj_need(c, K_COND, "pthread_cond_destroy");
    if (o->nwait) mc_violation("POSIX", "posix/cond-destroy-waiters", "pthread_cond_destroy while %d thread(s) wait on it", o->nwait);
    o->destroyed = 1; live_objs[K_COND]--;
    return 0;
}
static void cond_remove_waiter(Obj *c, int tid) { int i; for (i = 0; i < c->nwait; i++) if (c->waiters[i] == tid) { memmove(&c->waiters[i], &c->waiters[i + 1], (c->nwait - i - 1) * sizeof(int)); c->nwait--; return; } }
int __wrap_pthread_cond_wait(pthread_cond_t *c, pthread_mutex_t *m)
{
    Obj *co, *mo; Thread *t = &T[my_tid];
    obj_need(c, K_COND, "pthread_cond_wait");
    sched_point(OP_COND_WAIT, c, 0);
    co = obj_need(c, K_COND, "pthread_cond_wait");
    mo = obj_need(m, K_MUTEX, "pthread_cond_wait(mutex)");
    if (mo->owner != my_tid) mc_violation("POSIX", "posix/cond-wait-mutex-not-held", "pthread_cond_wait by T%d with a mutex %p that it does not hold (owner T%d): undefined behaviour", my_tid, (void *)m, mo->owner);
    /* atomically: release the mutex and start waiting */
    mon_release_obj(m); mo->owner = -1;
    co->waiters[co->nwait++] = my_tid; t->long_waits++;
    t->pend_kind = OP_COND_BLOCKED; t->pend_obj = c; t->cond_mutex = m; t->woken = 0;
    sched_block_current();
    /* chosen again: woken (signal, broadcast or spurious) and the mutex is free */
    co = obj_find(c, K_COND); if (co) cond_remove_waiter(co, my_tid);
    mo = obj_need(m, K_MUTEX, "pthread_cond_wait(mutex)");
    if (mo->owner != -1) mc_engine_error("cond waiter resumed while the mutex is held");
    mo->owner = my_tid; mon_acquire_obj(m); mon_acquire_obj(c);
    t->woken = 0;
    return 0;
}
int __wrap_pthread_cond_timedwait(pthread_cond_t *c, pthread_mutex_t *m, const struct timespec *ts) { (void)ts; return __wrap_pthread_cond_wait(c, m); }
int __wrap_pthread_cond_signal(pthread_cond_t *c)
{
    Obj *co; int cand[MAXT], n = 0, i, k;
    obj_need(c, K_COND, "pthread_cond_signal");
    sched_point(OP_COND_SIGNAL, c, 0);
    co = obj_need(c, K_COND, "pthread_cond_signal");
    for (i = 0; i < co->nwait; i++) if (!T[co->waiters[i]].woken) cand[n++] = co->waiters[i];
    if (n) {
        k = n > 1 ? env_choice(n, COST_FREE, "which waiter a signal wakes") : 0;
        T[cand[k]].woken = 1; cond_remove_waiter(co, cand[k]);
        mon_release_obj_join(c);
    }
    return 0;
}
int __wrap_pthread_cond_broadcast(pthread_cond_t *c)
{
    Obj *co; int i;
    obj_need(c, K_COND, "pthread_cond_broadcast");
    sched_point(OP_COND_BROADCAST, c, 0);
    co = obj_need(c, K_COND, "pthread_cond_broadcast");
    for (i = 0; i < co->nwait; i++) T[co->waiters[i]].woken = 1;
    co->nwait = 0;
    mon_release_obj_join(c);
    return 0;
}

/* ------------------------------------------------------------------ rwlock
 * default attributes: a read lock is granted whenever no writer holds the lock (glibc's default, reader preferring).
 * PTHREAD_RWLOCK_PREFER_WRITER_NONRECURSIVE_NP (the only kind glibc treats differently): while readers hold the lock and a
 * writer waits, further readers wait as well and tryrdlock reports EBUSY.  The pthread_rwlockattr_* functions run for real. */
int __wrap_pthread_rwlock_init(pthread_rwlock_t *l, const pthread_rwlockattr_t *a)
{
    Obj *o; int kind = 0;
    sched_point(OP_RWMISC, l, 0);
    o = obj_find(l, K_RWLOCK); if (!o) o = obj_new(l, K_RWLOCK);
    if (a && pthread_rwlockattr_getkind_np(a, &kind) == 0) o->prefer_writer = kind == PTHREAD_RWLOCK_PREFER_WRITER_NONRECURSIVE_NP;
    return 0;
}
int __wrap_pthread_rwlock_destroy(pthread_rwlock_t *l)
{
    Obj *o; sched_point(OP_RWMISC, l, 1);
    o = obj_need(l, K_RWLOCK, "pthread_rwlock_destroy");
    if (o->owner != -1 || o->readers) mc_violation("POSIX", "posix/rwlock-destroy-held", "pthread_rwlock_destroy of a held rwlock");
    o->destroyed = 1; live_objs[K_RWLOCK]--; sync_clock_drop(l);
    return 0;
}
int __wrap_pthread_rwlock_rdlock(pthread_rwlock_t *l)
{
    Obj *o; o = obj_need(l, K_RWLOCK, "pthread_rwlock_rdlock");
    if (o->owner == my_tid) { sched_point(OP_RWMISC, l, 2); return EDEADLK; }
    sched_point(OP_RDLOCK, l, 0);
    o = obj_need(l, K_RWLOCK, "pthread_rwlock_rdlock");
    o->readers++; o->rd_by[my_tid]++; mon_acquire_obj(l);
    return 0;
}
int __wrap_pthread_rwlock_tryrdlock(pthread_rwlock_t *l)
{
    Obj *o; obj_need(l, K_RWLOCK, "pthread_rwlock_tryrdlock");
    sched_point(OP_TRYRDLOCK, l, 0);
    o = obj_need(l, K_RWLOCK, "pthread_rwlock_tryrdlock");
    if (o->owner != -1 || (o->prefer_writer && o->readers > 0 && writer_waits(o))) { ch_note(0xEB); return EBUSY; }
    o->readers++; o->rd_by[my_tid]++; mon_acquire_obj(l);
    return 0;
}
int __wrap_pthread_rwlock_wrlock(pthread_rwlock_t *l)
{
    Obj *o; o = obj_need(l, K_RWLOCK, "pthread_rwlock_wrlock");
    if (o->owner == my_tid || o->rd_by[my_tid]) { sched_point(OP_RWMISC, l, 3); return EDEADLK; }
    sched_point(OP_WRLOCK, l, 0);
    o = obj_need(l, K_RWLOCK, "pthread_rwlock_wrlock");
    o->owner = my_tid; mon_acquire_obj(l);
    return 0;
}
int __wrap_pthread_rwlock_trywrlock(pthread_rwlock_t *l)
{
    Obj *o; obj_need(l, K_RWLOCK, "pthread_rwlock_trywrlock");
    sched_point(OP_TRYWRLOCK, l, 0);
    o = obj_need(l, K_RWLOCK, "pthread_rwlock_trywrlock");
    if (o->owner != -1 || o->readers) { ch_note(0xEB); return EBUSY; }
    o->owner = my_tid; mon_acquire_obj(l);
    return 0;
}
int __wrap_pthread_rwlock_unlock(pthread_rwlock_t *l)
{
    Obj *o; obj_need(l, K_RWLOCK, "pthread_rwlock_unlock");
    sched_point(OP_RWUNLOCK, l, 0);
    o = obj_need(l, K_RWLOCK, "pthread_rwlock_unlock");
    if (o->owner == my_tid) { mon_release_obj_join(l); o->owner = -1; }
    else if (o->rd_by[my_tid]) { mon_release_obj_join(l); o->rd_by[my_tid]--; o->readers--; }
    else mc_violation("POSIX", "posix/rwlock-unlock-not-held", "pthread_rwlock_unlock by T%d which holds the lock in no mode (undefined behaviour)", my_tid);
    return 0;
}

/* ------------------------------------------------------------------ keys */
#define NKEYS 32
static struct { int used; void (*dtor)(void *); } keys[NKEYS];
long mc_keys_live(void) { int i; long n = 0; for (i = 0; i < NKEYS; i++) n += keys[i].used; return n; }
int __wrap_pthread_key_create(pthread_key_t *k, void (*dtor)(void *))
{
    int i;
    sched_point(OP_KEY, NULL, 0);
    for (i = 0; i < NKEYS; i++) if (!keys[i].used) { int t; keys[i].used = 1; keys[i].dtor = dtor; for (t = 0; t < MAXT; t++) T[t].tls[i] = NULL; *k = (pthread_key_t)i; return 0; }
    return EAGAIN;
}
int __wrap_pthread_key_delete(pthread_key_t k)
{
    sched_point(OP_KEY, NULL, 1);
    if (k >= NKEYS || !keys[k].used) mc_violation("POSIX", "posix/key-delete-invalid", "pthread_key_delete of an invalid key");
    keys[k].used = 0;
    return 0;
}
void *__wrap_pthread_getspecific(pthread_key_t k)
{
    if (k >= NKEYS || !keys[k].used) mc_violation("POSIX", "posix/getspecific-invalid-key", "pthread_getspecific with a key that is not allocated (deleted or never created)");
    return T[my_tid].tls[k];
}
int __wrap_pthread_setspecific(pthread_key_t k, const void *v)
{
    if (k >= NKEYS || !keys[k].used) mc_violation("POSIX", "posix/setspecific-invalid-key", "pthread_setspecific with a key that is not allocated (deleted or never created)");
    T[my_tid].tls[k] = (void *)v;
    return 0;
}
void run_key_destructors(int tid)
{
    int round, i, again = 1;
    for (round = 0; round < 4 && again; round++) {
        again = 0;
        for (i = 0; i < NKEYS; i++) if (keys[i].used && T[tid].tls[i] && keys[i].dtor) {
            void *v = T[tid].tls[i]; T[tid].tls[i] = NULL; again = 1;
            sched_point(OP_KEY, NULL, 2);
            keys[i].dtor(v);
        }
    }
}

/* ------------------------------------------------------------------ create / join / exit / yield / sleep */
int __wrap_pthread_create(pthread_t *th, const pthread_attr_t *attr, void *(*fn)(void *), void *arg) { return mcrt_create_thread(th, attr, fn, arg); }
int __wrap_pthread_join(pthread_t th, void **ret) { mcrt_join_thread(mcrt_find_thread(th), ret); return 0; }
int __wrap_pthread_detach(pthread_t th)
{
    int id = mcrt_find_thread(th);
    sched_point(OP_STEP, NULL, 0);
    if (id < 0) return ESRCH;
    /* the lifetime of a thread ID ends with a successful join (or with the end of a detached thread): using it afterwards is undefined -
     * glibc hands the descriptor to the next thread created, which a stale pthread_detach then detaches behind its owner's back */
    if (T[id].joined) mc_violation("POSIX", "posix/detach-after-join", "pthread_detach on the ID of thread T%d, which has already been joined (undefined behaviour: the ID may by now belong to another thread)", id);
    if (T[id].detached) mc_violation("POSIX", "posix/detach-twice", "pthread_detach on thread T%d, which is already detached (undefined behaviour)", id);
    T[id].detached = 1;
    return 0;
}
void __real_pthread_exit(void *);
void __wrap_pthread_exit(void *ret)
{
    if (my_tid == 0) mc_engine_error("pthread_exit from the main harness thread is not supported");
    sched_point(OP_EXIT, NULL, 0);
    T[my_tid].retval = ret;
    run_key_destructors(my_tid);
    thread_finish_current();
    __real_pthread_exit(ret);
}
int __wrap_sched_yield(void) { sched_point(OP_YIELD, NULL, 0); return 0; }
int __wrap_pthread_setname_np(pthread_t th, const char *name) { (void)th; (void)name; return 0; }

/* virtual clock: sleeping advances it, nothing really sleeps */
int __wrap_nanosleep(const struct timespec *req, struct timespec *rem)
{
    sched_point(OP_SLEEP, NULL, 0);
    vclock_ms += (unsigned long)req->tv_sec * 1000 + (unsigned long)(req->tv_nsec + 999999) / 1000000;
    if (rem) { rem->tv_sec = 0; rem->tv_nsec = 0; }
    return 0;
}
int __wrap_clock_nanosleep(clockid_t c, int flags, const struct timespec *req, struct timespec *rem)
{
    (void)c; (void)flags;
    sched_point(OP_SLEEP, NULL, 1);
    vclock_ms += (unsigned long)req->tv_sec * 1000 + (unsigned long)(req->tv_nsec + 999999) / 1000000;
    if (rem) { rem->tv_sec = 0; rem->tv_nsec = 0; }
    return 0;
}
int __wrap_usleep(unsigned us) { sched_point(OP_SLEEP, NULL, 2); vclock_ms += (us + 999) / 1000; return 0; }
unsigned __wrap_sleep(unsigned sec) { sched_point(OP_SLEEP, NULL, 3); vclock_ms += 1000ul * sec; return 0; }
int __wrap_pthread_yield(void) { sched_point(OP_YIELD, NULL, 0); return 0; }
/* pthread_once: the first caller runs the routine, callers arriving meanwhile wait (fairly yielding) until it has returned */
int __wrap_pthread_once(pthread_once_t *ctl_, void (*fn)(void))
{
    static struct { pthread_once_t *c; int state; } onces[32]; static int n; int i;
    sched_point(OP_STEP, ctl_, 0);
    for (i = 0; i < n; i++) if (onces[i].c == ctl_) break;
    if (i == n) { if (n == 32) mc_engine_error("too many pthread_once controls"); onces[n].c = ctl_; onces[n].state = 1; n++; fn(); onces[i].state = 2; mon_release_obj(ctl_); return 0; }
    while (onces[i].state == 1) sched_point(OP_YIELD, NULL, 0);
    mon_acquire_obj(ctl_);
    return 0;
}

/* ------------------------------------------------------------------ zygote */
extern void p_libsys_init(void);
void mc_harness_zygote(void) __attribute__((weak));
void mc_harness_preinit(void) __attribute__((weak));       /* what the application did before it initialised the library (e.g. installed signal handlers) */
void mcrt_zygote_init(void) { if (mc_harness_preinit) mc_harness_preinit(); p_libsys_init(); if (mc_harness_zygote) mc_harness_zygote(); }
