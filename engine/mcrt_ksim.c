/* glue between KSIM and the mcrt scheduler: socket calls are scheduling points, a poll that is not ready blocks the
 * thread, virtual time passes (poll time-outs fire) only when no thread can run, deviations cost one deviation each */
#include "mcrt_int.h"
#include "ksim.h"

void ksim_sched_point(int kind, void *obj) { sched_point(OP_SOCK, obj, kind); }
int ksim_env_choice(int n, const char *what) { return mc_active ? env_choice(n, COST_DEVIATION, what) : 0; }
void ksim_note(uint64_t v) { ch_note(v); }
void ksim_publish(void *obj, uint64_t v) { if (mc_active) { mon_release_obj_join(obj); ch_publish(obj, v); } }
void ksim_observe(void *obj, uint64_t v) { if (mc_active) { mon_acquire_obj(obj); ch_note(v); } }
void ksim_violation(const char *sig, const char *msg) { mc_violation("KSIM", sig, "%s", msg); }

static int (*rdy)(void *);
static int poll_enabled(Thread *t) { return t->poll_fired || ((int (*)(void *))t->pend_obj2)(t->pend_obj); }
void ksim_sched_wait(int (*ready)(void *), void *arg, int has_timeout, int *timed_out)
{
    Thread *t = &T[my_tid];
    (void)rdy;
    if (!mc_active) { *timed_out = has_timeout; if (!has_timeout) mc_engine_error("poll would block forever outside an execution"); return; }
    t->pend_enabled = poll_enabled; t->pend_obj2 = (void *)ready; t->poll_fired = 0; t->poll_has_timeout = has_timeout;
    sched_point(OP_POLL, arg, has_timeout);
    t->pend_enabled = NULL;
    *timed_out = t->poll_fired && !ready(arg);
    t->poll_fired = 0; t->poll_has_timeout = 0;
    ch_note((uint64_t)*timed_out);
}
