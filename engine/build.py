#!/usr/bin/env python3
"""Build plumbing: compiles plibsys from /repo's *working tree* into /verif/build/<variant>.

Never uses /repo/_build.  Configuration (plibsysconfig.h, define list, source list) comes
from a cmake configure run in /verif/build/cfg, cached on a hash of the cmake inputs.
"""
import hashlib, json, os, re, subprocess, sys, shutil
from concurrent.futures import ThreadPoolExecutor

VERIF = os.path.dirname(os.path.dirname(os.path.abspath(__file__)))
REPO = os.environ.get("VERIF_REPO", "/repo")
BUILD = os.environ.get("VERIF_BUILD", os.path.join(VERIF, "build"))     # overridable together with VERIF_REPO so that a seeded tree can be checked in isolation
CFG = os.path.join(BUILD, "cfg")
ENGINE = os.path.join(VERIF, "engine")
GUARD = "PLIBSYS_VERIF"


class BuildError(Exception):
    pass


def sh(cmd, **kw):
    r = subprocess.run(cmd, stdout=subprocess.PIPE, stderr=subprocess.STDOUT, text=True, **kw)
    if r.returncode != 0:
        raise BuildError("command failed: %s\n%s" % (" ".join(cmd) if isinstance(cmd, list) else cmd, r.stdout[-4000:]))
    return r.stdout


def _hash_files(paths):
    h = hashlib.sha256()
    for p in sorted(paths):
        h.update(p.encode())
        try:
            with open(p, "rb") as f:
                h.update(f.read())
        except OSError:
            h.update(b"<missing>")
    return h.hexdigest()


def _cfg_inputs():
    out = [os.path.join(REPO, "CMakeLists.txt"), os.path.join(REPO, "src", "CMakeLists.txt"),
           os.path.join(REPO, "src", "plibsysconfig.h.in")]
    for d in ("cmake", "platforms"):
        for root, _, files in os.walk(os.path.join(REPO, d)):
            out += [os.path.join(root, f) for f in files]
    return out


_cfg_cache = None


def config():
    """returns dict(sources=[abs paths], defines=[...], incs=[...])"""
    global _cfg_cache
    if _cfg_cache:
        return _cfg_cache
    os.makedirs(BUILD, exist_ok=True)
    key = _hash_files(_cfg_inputs())
    meta = os.path.join(CFG, "verif_cfg.json")
    if os.path.exists(meta):
        try:
            m = json.load(open(meta))
            if m.get("key") == key and os.path.exists(os.path.join(CFG, "src", "plibsysconfig.h")):
                _cfg_cache = m
                return m
        except Exception:
            pass
    shutil.rmtree(CFG, ignore_errors=True)
    sh(["cmake", "-G", "Ninja", "-S", REPO, "-B", CFG, "-DPLIBSYS_TESTS=OFF", "-DPLIBSYS_BUILD_DOC=OFF",
        "-DCMAKE_BUILD_TYPE=Release"])
    ninja = open(os.path.join(CFG, "build.ninja")).read()
    srcs, defines = [], None
    for m in re.finditer(r"^build src/CMakeFiles/plibsysstatic\.dir/(\S+)\.o: C_COMPILER\S* (\S+)", ninja, re.M):
        srcs.append(m.group(2))
    m = re.search(r"build src/CMakeFiles/plibsysstatic\.dir/\S+\.o:.*?\n((?:  .*\n)+)", ninja)
    blk = m.group(1)
    defines = re.search(r"DEFINES = (.*)", blk).group(1).split()
    defines = [d for d in defines if d not in ("-Dplibsys_EXPORTS",)]
    if not srcs:
        raise BuildError("could not read the source list from build.ninja")
    m = dict(key=key, sources=srcs, defines=defines, incs=[os.path.join(REPO, "src"), os.path.join(CFG, "src")])
    json.dump(m, open(meta, "w"))
    _cfg_cache = m
    return m


MODEL_RE = re.compile(r"/(patomic|pspinlock|prwlock)-[a-z0-9]+\.c$")

VARIANT_FLAGS = {
    # instrumented for our own runtime (mcrt): gcc tsan instrumentation, not linked with libtsan
    "mc": ["-O1", "-g", "-fsanitize=thread", "--param", "tsan-distinguish-volatile=1",
           "-fno-builtin-memcpy", "-fno-builtin-memset", "-fno-builtin-memmove", "-fno-inline-functions", "-ftrivial-auto-var-init=pattern"],
    # -ftrivial-auto-var-init=pattern: a local variable that is read before it was assigned holds 0xFE.. instead of whatever the stack held,
    # so a dropped initialisation behaves the same way every time (a wild pointer, a huge count, a "true" flag) instead of usually working
    "asan": ["-O1", "-g", "-fsanitize=address,undefined", "-fno-sanitize-recover=all", "-fno-omit-frame-pointer", "-ftrivial-auto-var-init=pattern"],
    "plain": ["-O1", "-g"],
    "fast": ["-O2", "-g"],
    "tsan": ["-O1", "-g", "-fsanitize=thread"],
}


def lib_sources(atomic="c11", rwlock="posix"):
    c = config()
    out = []
    for s in c["sources"]:
        m = MODEL_RE.search(s)
        if m:
            kind = m.group(1)
            model = atomic if kind in ("patomic", "pspinlock") else rwlock
            s = os.path.join(REPO, "src", "%s-%s.c" % (kind, model))
        out.append(s)
    return out


def _compile_one(args):
    cc, src, obj, flags = args[:4]
    allsrc = len(args) > 4 and args[4]
    dep = obj + ".key"
    # key: preprocessed-input independent quick key = source + all headers in src dir (cheap: hash of mtimes+sizes)
    hdrs = []
    sd = os.path.join(REPO, "src")
    for f in os.listdir(sd):
        if f.endswith(".h") or allsrc:
            st = os.stat(os.path.join(sd, f))
            hdrs.append("%s:%d:%d" % (f, st.st_mtime_ns, st.st_size))
    extra = []
    if allsrc:
        for d in (ENGINE, os.path.join(VERIF, "ref"), os.path.join(VERIF, "harness")):
            if os.path.isdir(d):
                for f in os.listdir(d):
                    if f.endswith((".h", ".c", ".inc")):
                        st = os.stat(os.path.join(d, f))
                        extra.append("%s:%d:%d" % (f, st.st_mtime_ns, st.st_size))
    for f in flags:
        if f.endswith(".h") and os.path.exists(f):
            st = os.stat(f)
            extra.append("%s:%d" % (f, st.st_mtime_ns))
    st = os.stat(src)
    key = hashlib.sha256(("%s|%s|%d|%d|%s|%s|%s" % (cc, src, st.st_mtime_ns, st.st_size, " ".join(flags),
                                                     ",".join(sorted(hdrs)), ",".join(extra))).encode()).hexdigest()
    if os.path.exists(obj) and os.path.exists(dep) and open(dep).read() == key:
        return None
    r = subprocess.run([cc] + flags + ["-c", src, "-o", obj], stdout=subprocess.PIPE, stderr=subprocess.STDOUT, text=True)
    if r.returncode != 0:
        return "compile failed: %s\n%s" % (src, r.stdout[-3000:])
    open(dep, "w").write(key)
    return None


def compile_many(jobs):
    with ThreadPoolExecutor(max_workers=16) as ex:
        errs = [e for e in ex.map(_compile_one, jobs) if e]
    if errs:
        raise BuildError("\n".join(errs))


def build_lib(variant, atomic="c11", rwlock="posix", extra_flags=(), exclude=(), cc="gcc"):
    """compile the library objects; returns list of object paths."""
    c = config()
    name = "%s-%s-%s" % (variant, atomic, rwlock)
    od = os.path.join(BUILD, name, "lib")
    os.makedirs(od, exist_ok=True)
    flags = VARIANT_FLAGS[variant] + list(extra_flags) + c["defines"] + ["-D" + GUARD, "-w"] + ["-I" + i for i in c["incs"]]
    jobs, objs = [], []
    for s in lib_sources(atomic, rwlock):
        base = os.path.basename(s)
        if base in exclude:
            continue
        o = os.path.join(od, base[:-2] + ".o")
        objs.append(o)
        jobs.append((cc, s, o, flags))
    compile_many(jobs)
    return objs


def cflags_for(variant, extra=()):
    c = config()
    return VARIANT_FLAGS[variant] + c["defines"] + ["-D" + GUARD] + ["-I" + i for i in c["incs"]] + ["-I" + ENGINE, "-I" + os.path.join(VERIF, "ref")] + list(extra)      # extra last: a -U there overrides a configured -D


MCRT_SOURCES = ["engine/mcrt_core.c", "engine/mcrt_mon.c", "engine/mcrt_pthread.c", "engine/mcrt_mem.c", "engine/mcrt_sym.c"]
MCRT_WRAPS = ["pthread_create", "pthread_join", "pthread_detach", "pthread_exit", "pthread_mutex_init", "pthread_mutex_destroy",
              "pthread_mutex_lock", "pthread_mutex_trylock", "pthread_mutex_unlock", "pthread_cond_init", "pthread_cond_destroy",
              "pthread_cond_wait", "pthread_cond_timedwait", "pthread_cond_signal", "pthread_cond_broadcast",
              "pthread_rwlock_init", "pthread_rwlock_destroy", "pthread_rwlock_rdlock", "pthread_rwlock_tryrdlock",
              "pthread_rwlock_wrlock", "pthread_rwlock_trywrlock", "pthread_rwlock_unlock",
              "pthread_key_create", "pthread_key_delete", "pthread_getspecific", "pthread_setspecific",
              "sched_yield", "pthread_setname_np", "nanosleep", "clock_nanosleep", "usleep", "sleep", "pthread_yield", "pthread_once",
              "malloc", "calloc", "realloc", "free", "memcpy", "memset", "memmove", "getaddrinfo",
              "strcpy", "strncpy", "strcat", "strncat", "fgets", "inet_ntop", "inet_pton", "snprintf", "sprintf"]


IPC_WRAPS = ["sem_open", "sem_close", "sem_unlink", "sem_wait", "sem_trywait", "sem_post", "sem_getvalue",
             "shm_open", "shm_unlink", "ftruncate", "fstat", "mmap", "munmap", "close"]
IPC_SOURCES = ["engine/mcrt_ipc.c", "engine/ipcnames.c"]


KSIM_WRAPS = ["socket", "fcntl", "setsockopt", "getsockopt", "getsockname", "getpeername", "bind", "listen", "connect", "accept", "send", "sendto", "recv", "recvfrom",
              "shutdown", "poll", "close"]
KSIM_SOURCES = ["engine/ksim.c", "engine/mcrt_ksim.c"]


# thread / time functions the library may call without the scheduler having to know (no blocking, no synchronisation)
PASS_THROUGH = {"pthread_attr_init", "pthread_attr_destroy", "pthread_attr_setdetachstate", "pthread_attr_getdetachstate", "pthread_attr_setinheritsched", "pthread_attr_getschedpolicy",
                "pthread_attr_setschedpolicy", "pthread_attr_setschedparam", "pthread_attr_setstacksize", "pthread_self", "pthread_equal", "pthread_getschedparam", "pthread_setschedparam",
                "sched_get_priority_min", "sched_get_priority_max", "clock_gettime", "gettimeofday", "time",
                "pthread_rwlockattr_init", "pthread_rwlockattr_destroy", "pthread_rwlockattr_setkind_np", "pthread_rwlockattr_getkind_np", "pthread_rwlockattr_setpshared", "pthread_rwlockattr_getpshared",
                "pthread_mutexattr_init", "pthread_mutexattr_destroy", "pthread_mutexattr_settype", "pthread_mutexattr_gettype", "pthread_condattr_init", "pthread_condattr_destroy",
                "pthread_attr_getstacksize", "pthread_attr_setguardsize", "pthread_attr_getguardsize", "pthread_attr_setscope", "pthread_getattr_np", "pthread_getname_np",
                "sched_getcpu", "sched_getparam", "sched_getscheduler", "sched_getaffinity"}
BLOCKING_RE = re.compile(r"^(pthread_|sched_|nanosleep$|clock_nanosleep$|usleep$|sleep$|select$|pselect$|epoll_|sigwait|sigsuspend$|pause$|futex)")


def audit_symbols(objs, wraps):
    """a thread / scheduling / sleeping function that the library calls but the scheduler neither wraps nor knows as harmless would run for
    real and uncontrolled: that is an engine error with a message naming it, never a silently wrong exploration"""
    und = undefined_symbols(objs)
    bad = sorted(sym for sym in und if BLOCKING_RE.match(sym) and sym not in wraps and sym not in PASS_THROUGH)
    if bad:
        raise BuildError("library now references thread/sleep functions unknown to the controlled scheduler: %s (add a wrapper in engine/mcrt_pthread.c or list it in PASS_THROUGH)" % ", ".join(bad))


def build_mc_exe(name, sources, atomic="c11", rwlock="posix", extra_plain=(), extra_wraps=(), exclude=(), cflags=(), ipc=False, ksim=False):
    if ksim:
        extra_plain = list(extra_plain) + KSIM_SOURCES
        extra_wraps = list(extra_wraps) + KSIM_WRAPS
    if ipc:
        extra_plain = list(extra_plain) + IPC_SOURCES
        extra_wraps = list(extra_wraps) + IPC_WRAPS
    """harness linked with the instrumented library and the mcrt runtime (controlled scheduler + HB monitor)"""
    wraps = MCRT_WRAPS + list(extra_wraps)
    audit_symbols(build_lib("mc", atomic, rwlock, exclude=exclude), wraps)
    ld = ["-no-pie", "-Wl," + ",".join("--wrap=" + w for w in wraps)]
    return build_exe(name, "mc", sources, atomic=atomic, rwlock=rwlock, ldflags=ld, exclude=exclude, cflags=list(cflags) + ["-fno-pie"],
                     plain_sources=MCRT_SOURCES + list(extra_plain))


def build_free_exe(name, sources, atomic="c11", rwlock="posix"):
    """harness linked with the library and engine/mcfree.c under the *real* ThreadSanitizer (conformance pass, free running)"""
    return build_exe(name + "_free", "tsan", list(sources) + ["engine/mcfree.c"], atomic=atomic, rwlock=rwlock)


def build_exe(name, variant, sources, objs=(), cflags=(), ldflags=(), atomic="c11", rwlock="posix", cc="gcc", nolib=False,
              exclude=(), plain_sources=()):
    """compile harness sources with the variant flags and link with library objects -> path of the executable."""
    vname = "%s-%s-%s" % (variant, atomic, rwlock)
    od = os.path.join(BUILD, vname, "h_" + name)
    os.makedirs(od, exist_ok=True)
    libobjs = [] if nolib else build_lib(variant, atomic, rwlock, exclude=exclude, cc=cc)
    flags = cflags_for(variant, cflags) + ["-w"]
    jobs, hobjs = [], []
    for s in sources:
        if not os.path.isabs(s):
            s = os.path.join(VERIF, s)
        o = os.path.join(od, os.path.basename(s).rsplit(".", 1)[0] + ".o")
        hobjs.append(o)
        jobs.append((cc, s, o, flags, True))
    pflags = ["-O1", "-g", "-fno-pie", "-w", "-DMCRT_IPC"] + config()["defines"] + ["-I" + i for i in config()["incs"]] + ["-I" + ENGINE]
    for s in plain_sources:
        if not os.path.isabs(s):
            s = os.path.join(VERIF, s)
        o = os.path.join(od, os.path.basename(s).rsplit(".", 1)[0] + ".o")
        hobjs.append(o)
        jobs.append((cc, s, o, pflags, True))
    compile_many(jobs)
    exe = os.path.join(od, name)
    link_flags = [f for f in VARIANT_FLAGS[variant] if f.startswith("-fsanitize")] if variant in ("asan", "tsan") else []
    cmd = [cc] + link_flags + hobjs + list(objs) + libobjs + list(ldflags) + ["-pthread", "-lrt", "-ldl", "-lm", "-o", exe]
    sh(cmd)
    return exe


def undefined_symbols(objs):
    out = sh(["nm", "-u"] + list(objs))
    syms = set()
    for l in out.splitlines():
        l = l.strip()
        if l.startswith("U "):
            syms.add(l[2:].split("@")[0])
    return syms


def defined_symbols(objs):
    out = sh(["nm", "--defined-only"] + list(objs))
    syms = set()
    for l in out.splitlines():
        p = l.split()
        if len(p) == 3:
            syms.add(p[2])
    return syms


if __name__ == "__main__":
    if "--setup" in sys.argv:
        c = config()
        print("configured: %d sources" % len(c["sources"]))
        build_lib("asan")
        build_lib("plain")
        print("setup ok")
