/* KSIM: in-memory model of the POSIX socket layer, as far as psocket.c uses it (Linux semantics).
 * Tiny buffers (default 8 bytes per stream direction, 2 datagrams per queue) so that short writes and EAGAIN arise on
 * their own; virtual clock; deviation points (EINTR, spurious EAGAIN, extra-short transfer) at every blocking call.
 *
 * Two modes: linked with the mcrt scheduler (threads: a poll that is not ready blocks the thread; time passes only when
 * nothing else can run) or standalone (single thread: a not-ready poll with a time-out advances the clock, an infinite one
 * longjmps to the harness' "would block forever" handler).
 * The binding of this model to the real kernel is the conformance replay (same harness linked against real sockets).
 */
#define _GNU_SOURCE
#include <errno.h>
#include <fcntl.h>
#include <netinet/in.h>
#include <poll.h>
#include <setjmp.h>
#include <signal.h>
#include <stdarg.h>
#include <stdint.h>
#include <stdio.h>
#include <stdlib.h>
#include <string.h>
#include <sys/socket.h>
#include <unistd.h>
#include "ksim.h"

void *__real_memcpy(void *, const void *, size_t) __attribute__((weak));
#define KCPY(d, s, n) do { size_t i_; for (i_ = 0; i_ < (size_t)(n); i_++) ((unsigned char *)(d))[i_] = ((const unsigned char *)(s))[i_]; } while (0)
#define KZERO(d, n) do { size_t i_; for (i_ = 0; i_ < (size_t)(n); i_++) ((unsigned char *)(d))[i_] = 0; } while (0)

/* hooks into the scheduler (weak: absent in standalone mode) */
extern void ksim_sched_point(int kind, void *obj) __attribute__((weak));
extern void ksim_sched_wait(int (*ready)(void *), void *arg, int has_timeout, int *timed_out) __attribute__((weak));
extern int ksim_env_choice(int n, const char *what) __attribute__((weak));
extern void ksim_note(uint64_t v) __attribute__((weak));
extern void ksim_publish(void *obj, uint64_t v) __attribute__((weak));
extern void ksim_observe(void *obj, uint64_t v) __attribute__((weak));
extern void ksim_violation(const char *sig, const char *msg) __attribute__((weak));

#define KFD0 1000
#define NSOCK 24
#define RXMAX 64
#define DQ 4
enum { S_FREE, S_FRESH, S_LISTEN, S_CONNECTING, S_CONNECTED, S_CLOSED };
typedef struct { int len; unsigned char data[64]; struct sockaddr_in6 src; socklen_t srclen; } Dgram;
typedef struct KSock {
    int state, family, type, proto, nonblock, cloexec, keepalive, reuseaddr, reuseport, sndbuf, rcvbuf;
    int bound, port; struct sockaddr_in6 local; socklen_t locallen;
    int peer;                      /* index of the connected peer or -1 */
    unsigned char rx[RXMAX]; int rxlen;
    int peer_fin;                  /* peer closed or shut down its write side */
    int rst;                       /* connection reset */
    int sent_after_peer_close;
    int shut_rd, shut_wr, so_error;
    int conn_reported;             /* the completion of the connection has been reported by a connect() call (Linux: the first connect() after an asynchronous completion returns 0, later ones EISCONN) */
    int linger0;                   /* SO_LINGER {on, 0}: close is abortive (the peer sees a reset); inherited by accepted sockets as on Linux */
    int backlog, aq[8], naq;
    int dflt_port; int has_dflt;   /* datagram connect() */
    Dgram dq[DQ]; int ndq;
    int silent;                    /* connecting to a listener whose queue is full: never completes */
} KSock;
static KSock S[NSOCK];
static int next_port = 40000;
int ksim_rxcap = 8, ksim_dgcap = 2;
unsigned long ksim_clock_ms;
long ksim_calls, ksim_calls_on_bad_fd, ksim_calls_on_closed_fd, ksim_blocking_polls, ksim_polls;
int ksim_sigpipe_ignored = 0;
int ksim_connect_immediate = 0;    /* 1: a non-blocking connect to a ready listener returns 0 at once; 0: EINPROGRESS then completes (both occur on Linux loopback) */
static jmp_buf *block_jmp;
static int (*seq_deviation)(int n, const char *what);

void ksim_reset(void) { KZERO(S, sizeof S); next_port = 40000; ksim_clock_ms = 0; ksim_calls = ksim_calls_on_bad_fd = ksim_calls_on_closed_fd = ksim_blocking_polls = ksim_polls = 0; }
void ksim_set_block_handler(jmp_buf *jb) { block_jmp = jb; }
void ksim_set_deviation_hook(int (*fn)(int, const char *)) { seq_deviation = fn; }
int ksim_is_fd(int fd) { return fd >= KFD0 && fd < KFD0 + NSOCK; }
int ksim_open_sockets(void) { int i, n = 0; for (i = 0; i < NSOCK; i++) n += S[i].state != S_FREE && S[i].state != S_CLOSED; return n; }
int ksim_fd_cloexec(int fd) { return ksim_is_fd(fd) ? S[fd - KFD0].cloexec : -1; }
int ksim_fd_nonblock(int fd) { return ksim_is_fd(fd) ? S[fd - KFD0].nonblock : -1; }
uint32_t ksim_fingerprint(void)
{
    uint32_t h = 2166136261u; int i, j;
    for (i = 0; i < NSOCK; i++) { KSock *s = &S[i]; if (s->state == S_FREE) continue; h = (h ^ (uint32_t)(s->state * 31 + s->rxlen * 7 + s->peer_fin * 3 + s->rst + s->naq * 11 + s->ndq * 13 + s->shut_rd * 17 + s->shut_wr * 19 + s->so_error)) * 16777619u; for (j = 0; j < s->rxlen; j++) h = (h ^ s->rx[j]) * 16777619u; }
    return h ^ (uint32_t)ksim_clock_ms;
}

static KSock *get(int fd) { KSock *s; ksim_calls++; if (!ksim_is_fd(fd)) { ksim_calls_on_bad_fd++; errno = EBADF; return NULL; } s = &S[fd - KFD0]; if (s->state == S_FREE || s->state == S_CLOSED) { ksim_calls_on_bad_fd++; if (s->state == S_CLOSED) ksim_calls_on_closed_fd++; errno = EBADF; return NULL; } return s; }
static void point(int kind, void *obj) { if (ksim_sched_point) ksim_sched_point(kind, obj); }
static int deviation(int n, const char *what)
{
    int c = 0;
    if (ksim_env_choice) c = ksim_env_choice(n, what); else if (seq_deviation) c = seq_deviation(n, what);
    return c;
}
static int addr_port(const struct sockaddr *a) { return a->sa_family == AF_INET ? ntohs(((const struct sockaddr_in *)a)->sin_port) : ntohs(((const struct sockaddr_in6 *)a)->sin6_port); }
static void set_port(struct sockaddr_in6 *a, int port) { if (a->sin6_family == AF_INET) ((struct sockaddr_in *)a)->sin_port = htons(port); else a->sin6_port = htons(port); }

static void kernel_wait(struct KSock *s, int what);

/* ------------------------------------------------------------------ socket / fcntl / options */
int __wrap_socket(int family, int type, int proto)
{
    int i; KSock *s;
    point(1, NULL); ksim_calls++;
    if (family != AF_INET && family != AF_INET6) { errno = EAFNOSUPPORT; return -1; }
    for (i = 0; i < NSOCK; i++) if (S[i].state == S_FREE) break;
    if (i == NSOCK) { errno = EMFILE; return -1; }
    s = &S[i]; KZERO(s, sizeof *s);
    s->state = S_FRESH; s->family = family; s->type = type & 0xf; s->proto = proto; s->peer = -1;
    s->cloexec = !!(type & SOCK_CLOEXEC); s->nonblock = !!(type & SOCK_NONBLOCK); s->sndbuf = s->rcvbuf = 212992;
    s->local.sin6_family = (sa_family_t)family; s->locallen = family == AF_INET ? sizeof(struct sockaddr_in) : sizeof(struct sockaddr_in6);
    if (ksim_publish) ksim_publish(s, 1);
    return KFD0 + i;
}
int __real_fcntl(int, int, ...);
int __wrap_fcntl(int fd, int cmd, ...)
{
    va_list ap; long arg; KSock *s;
    va_start(ap, cmd); arg = va_arg(ap, long); va_end(ap);
    if (!ksim_is_fd(fd)) return __real_fcntl(fd, cmd, arg);
    s = get(fd); if (!s) return -1;
    switch (cmd) {
    case F_GETFL: return O_RDWR | (s->nonblock ? O_NONBLOCK : 0);
    case F_SETFL: s->nonblock = !!(arg & O_NONBLOCK); return 0;
    case F_GETFD: return s->cloexec ? FD_CLOEXEC : 0;
    case F_SETFD: s->cloexec = !!(arg & FD_CLOEXEC); return 0;
    }
    errno = EINVAL; return -1;
}
int __wrap_setsockopt(int fd, int level, int opt, const void *val, socklen_t len)
{
    KSock *s = get(fd); int v = 0;
    if (!s) return -1;
    if (len >= sizeof(int)) v = *(const int *)val;
    if (level != SOL_SOCKET) { errno = ENOPROTOOPT; return -1; }
    switch (opt) {
    case SO_KEEPALIVE: s->keepalive = !!v; return 0;
    case SO_LINGER: if (len >= sizeof(struct linger)) { const struct linger *lg = val; s->linger0 = lg->l_onoff && lg->l_linger == 0; } return 0;
    case SO_REUSEADDR: s->reuseaddr = !!v; return 0;
#ifdef SO_REUSEPORT
    case SO_REUSEPORT: s->reuseport = !!v; return 0;
#endif
    case SO_SNDBUF: s->sndbuf = v * 2; return 0;
    case SO_RCVBUF: s->rcvbuf = v * 2; return 0;
    }
    errno = ENOPROTOOPT; return -1;
}
int __wrap_getsockopt(int fd, int level, int opt, void *val, socklen_t *len)
{
    KSock *s = get(fd); int v;
    if (!s) return -1;
    if (level != SOL_SOCKET || !len || *len < sizeof(int)) { errno = EINVAL; return -1; }
    switch (opt) {
    case SO_TYPE: v = s->type; break;
    case SO_DOMAIN: v = s->family; break;
    case SO_PROTOCOL: v = s->proto; break;
    case SO_ERROR: v = s->so_error; s->so_error = 0; break;
    case SO_KEEPALIVE: v = s->keepalive; break;
    case SO_SNDBUF: v = s->sndbuf; break;
    case SO_RCVBUF: v = s->rcvbuf; break;
    default: errno = ENOPROTOOPT; return -1;
    }
    *(int *)val = v; *len = sizeof(int);
    return 0;
}
int __wrap_getsockname(int fd, struct sockaddr *a, socklen_t *l)
{
    KSock *s = get(fd); socklen_t n;
    if (!s) return -1;
    n = *l < s->locallen ? *l : s->locallen; KCPY(a, &s->local, n); *l = s->locallen;
    return 0;
}
int __wrap_getpeername(int fd, struct sockaddr *a, socklen_t *l)
{
    KSock *s = get(fd), *p; socklen_t n;
    if (!s) return -1;
    if (s->state != S_CONNECTED || s->peer < 0) { if (s->type == SOCK_DGRAM && s->has_dflt) { struct sockaddr_in6 t = s->local; set_port(&t, s->dflt_port); n = *l < s->locallen ? *l : s->locallen; KCPY(a, &t, n); *l = s->locallen; return 0; } errno = ENOTCONN; return -1; }
    p = &S[s->peer]; n = *l < p->locallen ? *l : p->locallen; KCPY(a, &p->local, n); *l = p->locallen;
    return 0;
}

/* ------------------------------------------------------------------ bind / listen / connect / accept */
static int port_in_use(KSock *me, int port)
{
    int i;
    for (i = 0; i < NSOCK; i++) { KSock *o = &S[i]; if (o == me || o->state == S_FREE || o->state == S_CLOSED || !o->bound || o->port != port || o->type != me->type) continue; if (o->peer >= 0 && o->state == S_CONNECTED && o->type == SOCK_STREAM && !o->backlog && o->naq == 0 && o->bound == 2) continue; if (o->reuseport && me->reuseport) continue; if (me->type == SOCK_STREAM && o->state != S_LISTEN && o->reuseaddr && me->reuseaddr) continue; return 1; }
    return 0;
}
static void do_bind(KSock *s, int port) { if (port == 0) { do port = next_port++; while (port_in_use(s, port)); } s->bound = 1; s->port = port; set_port(&s->local, port); }
int __wrap_bind(int fd, const struct sockaddr *a, socklen_t l)
{
    KSock *s; int port;
    point(2, NULL); s = get(fd); if (!s) return -1;
    if (l < sizeof(struct sockaddr_in) || a->sa_family != s->family) { errno = EINVAL; return -1; }
    if (s->bound) { errno = EINVAL; return -1; }
    port = addr_port(a);
    if (port && port_in_use(s, port)) { errno = EADDRINUSE; return -1; }
    KCPY(&s->local, a, l < sizeof s->local ? l : sizeof s->local);
    do_bind(s, port);
    if (ksim_publish) ksim_publish(s, 2);
    return 0;
}
int __wrap_listen(int fd, int backlog)
{
    KSock *s; point(3, NULL); s = get(fd); if (!s) return -1;
    if (s->type != SOCK_STREAM) { errno = EOPNOTSUPP; return -1; }
    if (s->state == S_CONNECTED || s->state == S_CONNECTING) { errno = EINVAL; return -1; }
    if (!s->bound) do_bind(s, 0);
    s->state = S_LISTEN; s->backlog = backlog < 0 ? 0 : backlog > 7 ? 7 : backlog;
    if (ksim_publish) ksim_publish(s, 3);
    return 0;
}
static KSock *find_listener(int family, int port) { int i; for (i = 0; i < NSOCK; i++) if (S[i].state == S_LISTEN && S[i].port == port && S[i].family == family) return &S[i]; return NULL; }
int __wrap_connect(int fd, const struct sockaddr *a, socklen_t l)
{
    KSock *s, *ls, *srv; int i, port;
    point(4, NULL);
    if (deviation(2, "connect")) { get(fd); errno = EINTR; return -1; }
    s = get(fd); if (!s) return -1;
    if (l < sizeof(struct sockaddr_in) || a->sa_family != s->family) { errno = EAFNOSUPPORT; return -1; }
    port = addr_port(a);
    if (s->type == SOCK_DGRAM) { if (!s->bound) do_bind(s, 0); s->has_dflt = 1; s->dflt_port = port; return 0; }
    if (s->state == S_CONNECTED) { if (!s->conn_reported) { s->conn_reported = 1; return 0; } errno = EISCONN; return -1; }
    if (s->state == S_CONNECTING) { errno = EALREADY; return -1; }
    if (s->state == S_LISTEN) { errno = EISCONN; return -1; }
    ls = find_listener(s->family, port);
    if (!s->bound) { do_bind(s, 0); s->bound = 2; }
    if (!ls) { errno = ECONNREFUSED; return -1; }
    if (ls->naq > ls->backlog) { s->state = S_CONNECTING; s->silent = 1; if (s->nonblock) { errno = EINPROGRESS; return -1; } errno = ETIMEDOUT; return -1; }
    for (i = 0; i < NSOCK; i++) if (S[i].state == S_FREE) break;
    if (i == NSOCK) { errno = ECONNREFUSED; return -1; }
    srv = &S[i]; KZERO(srv, sizeof *srv);
    srv->state = S_CONNECTED; srv->family = ls->family; srv->type = SOCK_STREAM; srv->proto = ls->proto; srv->peer = (int)(s - S); srv->bound = 2; srv->port = ls->port; srv->local = ls->local; srv->locallen = ls->locallen; srv->keepalive = ls->keepalive; srv->sndbuf = ls->sndbuf; srv->rcvbuf = ls->rcvbuf;
    srv->linger0 = ls->linger0; srv->conn_reported = 1;
    ls->aq[ls->naq++] = i;
    s->peer = i; s->state = S_CONNECTED;
    if (ksim_publish) { ksim_publish(ls, 4); ksim_publish(s, 4); }
    if (s->nonblock && !ksim_connect_immediate) { errno = EINPROGRESS; return -1; }
    s->conn_reported = 1;
    return 0;
}
int __wrap_accept(int fd, struct sockaddr *a, socklen_t *l)
{
    KSock *s; int idx, i;
    point(5, NULL);
    if (deviation(2, "accept")) { get(fd); errno = EINTR; return -1; }
    s = get(fd); if (!s) return -1;
    if (s->state != S_LISTEN) { errno = EINVAL; return -1; }
    if (!s->nonblock) kernel_wait(s, 0);
    if (ksim_observe) ksim_observe(s, (uint64_t)s->naq);
    if (s->naq == 0) { errno = EAGAIN; return -1; }
    idx = s->aq[0]; for (i = 1; i < s->naq; i++) s->aq[i - 1] = s->aq[i]; s->naq--;
    if (a && l) { KSock *c = &S[S[idx].peer]; socklen_t n = *l < c->locallen ? *l : c->locallen; KCPY(a, &c->local, n); *l = c->locallen; }
    if (ksim_publish) ksim_publish(s, 5);
    return KFD0 + idx;           /* accepted descriptors have neither O_NONBLOCK nor FD_CLOEXEC */
}

/* ------------------------------------------------------------------ data transfer */
static void check_sigpipe(int flags) { if (!(flags & MSG_NOSIGNAL) && !ksim_sigpipe_ignored) { if (ksim_violation) ksim_violation("sigpipe", "send() on a reset / shut down stream without MSG_NOSIGNAL while SIGPIPE is not ignored: the process would be killed by a signal"); else { fprintf(stderr, "KSIM: SIGPIPE would be raised\n"); abort(); } } }
static ssize_t stream_send(KSock *s, const void *buf, size_t n, int flags)
{
    KSock *p; int space, dev; size_t k;
    if (s->state != S_CONNECTED) { if (s->state == S_CONNECTING) { errno = EAGAIN; return -1; } check_sigpipe(flags); errno = EPIPE; return -1; }
    if (s->shut_wr) { check_sigpipe(flags); errno = EPIPE; return -1; }
    if (s->rst) { check_sigpipe(flags); errno = s->sent_after_peer_close ? EPIPE : ECONNRESET; s->sent_after_peer_close = 1; return -1; }
    p = &S[s->peer];
    if (p->state == S_CLOSED || p->state == S_FREE) { if (!s->sent_after_peer_close) { s->sent_after_peer_close = 1; s->rst = 1; return (ssize_t)n; } check_sigpipe(flags); errno = EPIPE; return -1; }
    dev = n ? deviation(n > 1 ? 3 : 2, "send") : 0;
    if (dev == 1) { errno = EAGAIN; return -1; }           /* spurious would-block although ready */
    if (!s->nonblock) kernel_wait(s, 3);
    space = ksim_rxcap - p->rxlen;
    if (p->shut_rd) return (ssize_t)n;                    /* peer does not read any more: data is discarded */
    if (space <= 0) { errno = EAGAIN; return -1; }
    k = n < (size_t)space ? n : (size_t)space;
    if (dev == 2 && k > 1) k--;                           /* extra-short transfer */
    KCPY(p->rx + p->rxlen, buf, k); p->rxlen += (int)k;
    if (ksim_publish) ksim_publish(p, 6);
    return (ssize_t)k;
}
ssize_t __wrap_send(int fd, const void *buf, size_t n, int flags)
{
    KSock *s; point(6, NULL);
    if (deviation(2, "send-eintr")) { get(fd); errno = EINTR; return -1; }
    s = get(fd); if (!s) return -1;
    if (s->type == SOCK_DGRAM) { if (!s->has_dflt) { errno = EDESTADDRREQ; return -1; } { struct sockaddr_in6 t = s->local; set_port(&t, s->dflt_port); return sendto(fd, buf, n, flags, (struct sockaddr *)&t, s->locallen); } }
    return stream_send(s, buf, n, flags);
}
ssize_t __wrap_sendto(int fd, const void *buf, size_t n, int flags, const struct sockaddr *a, socklen_t l)
{
    KSock *s, *d = NULL; int i, port;
    point(7, NULL);
    if (deviation(2, "sendto-eintr")) { get(fd); errno = EINTR; return -1; }
    s = get(fd); if (!s) return -1;
    if (s->type == SOCK_STREAM) return stream_send(s, buf, n, flags);
    if (!a || l < sizeof(struct sockaddr_in)) { errno = EDESTADDRREQ; return -1; }
    if (deviation(2, "sendto")) { errno = EAGAIN; return -1; }
    if (!s->bound) do_bind(s, 0);
    port = addr_port(a);
    for (i = 0; i < NSOCK; i++) if (S[i].state != S_FREE && S[i].state != S_CLOSED && S[i].type == SOCK_DGRAM && S[i].bound && S[i].port == port && S[i].family == s->family) d = &S[i];
    if (d && d->ndq < ksim_dgcap && !d->shut_rd) {
        Dgram *g = &d->dq[d->ndq++]; g->len = n > 64 ? 64 : (int)n; KCPY(g->data, buf, g->len); g->src = s->local; g->srclen = s->locallen;
        if (ksim_publish) ksim_publish(d, 7);
    }
    return (ssize_t)n;            /* UDP: the sender is told the whole datagram went out even if it is dropped */
}
static ssize_t stream_recv(KSock *s, void *buf, size_t n)
{
    size_t k; int dev, i;
    if (s->state != S_CONNECTED) { errno = ENOTCONN; return -1; }
    if (!s->nonblock) kernel_wait(s, 1);
    if (ksim_observe) ksim_observe(s, (uint64_t)(s->rxlen * 4 + s->peer_fin * 2 + s->rst));
    if (s->shut_rd) return 0;
    if (s->rxlen == 0) { if (s->rst) { errno = ECONNRESET; return -1; } if (s->peer_fin) return 0; errno = EAGAIN; return -1; }
    dev = n ? deviation(n > 1 && s->rxlen > 1 ? 3 : 2, "recv") : 0;
    if (dev == 1) { errno = EAGAIN; return -1; }
    k = n < (size_t)s->rxlen ? n : (size_t)s->rxlen;
    if (dev == 2 && k > 1) k--;
    KCPY(buf, s->rx, k); for (i = (int)k; i < s->rxlen; i++) s->rx[i - k] = s->rx[i]; s->rxlen -= (int)k;
    if (ksim_publish) ksim_publish(s, 8);
    return (ssize_t)k;
}
ssize_t __wrap_recv(int fd, void *buf, size_t n, int flags)
{
    KSock *s; (void)flags; point(8, NULL);
    if (deviation(2, "recv-eintr")) { get(fd); errno = EINTR; return -1; }
    s = get(fd); if (!s) return -1;
    if (s->type == SOCK_DGRAM) return recvfrom(fd, buf, n, flags, NULL, NULL);
    return stream_recv(s, buf, n);
}
ssize_t __wrap_recvfrom(int fd, void *buf, size_t n, int flags, struct sockaddr *a, socklen_t *l)
{
    KSock *s; Dgram *g; size_t k; int i, full;
    point(9, NULL);
    if (deviation(2, "recvfrom-eintr")) { get(fd); errno = EINTR; return -1; }
    s = get(fd); if (!s) return -1;
    if (s->type == SOCK_STREAM) { ssize_t r = stream_recv(s, buf, n); if (r >= 0 && l) *l = 0; return r; }
    if (!s->nonblock) kernel_wait(s, 2);
    if (ksim_observe) ksim_observe(s, (uint64_t)s->ndq);
    if (s->ndq == 0) { errno = EAGAIN; return -1; }
    if (deviation(2, "recvfrom")) { errno = EAGAIN; return -1; }
    g = &s->dq[0]; k = n < (size_t)g->len ? n : (size_t)g->len;        /* excess bytes of the datagram are discarded */
    KCPY(buf, g->data, k);
    if (a && l) { socklen_t m = *l < g->srclen ? *l : g->srclen; KCPY(a, &g->src, m); *l = g->srclen; }
    full = g->len;
    for (i = 1; i < s->ndq; i++) s->dq[i - 1] = s->dq[i]; s->ndq--;
    if (ksim_publish) ksim_publish(s, 9);
    return (flags & MSG_TRUNC) ? (ssize_t)full : (ssize_t)k;      /* MSG_TRUNC: the real length of the datagram is reported */
}
int __wrap_shutdown(int fd, int how)
{
    KSock *s; point(10, NULL); s = get(fd); if (!s) return -1;
    if (s->type == SOCK_STREAM && s->state != S_CONNECTED) { errno = ENOTCONN; return -1; }
    if (how == SHUT_RD || how == SHUT_RDWR) s->shut_rd = 1;
    if (how == SHUT_WR || how == SHUT_RDWR) { s->shut_wr = 1; if (s->peer >= 0) { S[s->peer].peer_fin = 1; if (ksim_publish) ksim_publish(&S[s->peer], 10); } }
    return 0;
}
int __real_close(int);
int __wrap_close(int fd)
{
    KSock *s;
    if (!ksim_is_fd(fd)) return __real_close(fd);
    point(11, NULL); s = get(fd); if (!s) return -1;
    if (s->type == SOCK_STREAM && s->state == S_CONNECTED && s->peer >= 0) { KSock *p = &S[s->peer]; if (p->state == S_CONNECTED) { p->peer_fin = 1; if (s->rxlen > 0 || s->linger0) p->rst = 1; if (ksim_publish) ksim_publish(p, 11); } }
    if (s->state == S_LISTEN) { int i; for (i = 0; i < s->naq; i++) { KSock *q = &S[s->aq[i]]; if (q->peer >= 0) { S[q->peer].rst = 1; S[q->peer].peer_fin = 1; } q->state = S_FREE; } }
    s->state = S_CLOSED; s->rxlen = 0; s->ndq = 0;
    return 0;
}

/* ------------------------------------------------------------------ poll */
static short revents_of(KSock *s, short ev)
{
    short r = 0;
    if (s->type == SOCK_DGRAM) { if (s->ndq > 0 || s->shut_rd) r |= POLLIN; r |= POLLOUT; return r & (ev | POLLERR | POLLHUP); }
    switch (s->state) {
    case S_FRESH: r |= POLLOUT | POLLHUP; break;
    case S_LISTEN: if (s->naq > 0) r |= POLLIN; break;
    case S_CONNECTING: break;
    case S_CONNECTED: {
        KSock *p = s->peer >= 0 ? &S[s->peer] : NULL;
        if (s->rxlen > 0 || s->peer_fin || s->shut_rd) r |= POLLIN;
        if (s->rst) r |= POLLIN | POLLERR | POLLHUP | POLLOUT;
        if (p && (p->state == S_CLOSED || p->state == S_FREE)) r |= POLLOUT;
        else if (p && ksim_rxcap - p->rxlen > 0 && !s->shut_wr) r |= POLLOUT;
        if (s->peer_fin && s->shut_wr) r |= POLLHUP;
        break; }
    }
    if (s->so_error) r |= POLLERR;
    return r & (ev | POLLERR | POLLHUP);
}
static struct pollfd *cur_pfd;
/* a descriptor without O_NONBLOCK: the system call itself waits until it can proceed */
typedef struct { KSock *s; int what; } KWait;
static int kwait_ready(void *arg)
{
    KWait *w = arg; KSock *s = w->s;
    if (s->state == S_CLOSED || s->state == S_FREE) return 1;
    switch (w->what) {
    case 0: return s->naq > 0;                                              /* accept */
    case 1: return s->rxlen > 0 || s->peer_fin || s->rst || s->shut_rd;     /* stream recv */
    case 2: return s->ndq > 0;                                              /* datagram recv */
    case 3: { KSock *p = s->peer >= 0 ? &S[s->peer] : NULL; return !p || p->state != S_CONNECTED || ksim_rxcap - p->rxlen > 0 || s->rst || s->shut_wr; }   /* stream send */
    }
    return 1;
}
static void kernel_wait(KSock *s, int what)
{
    KWait w; int timed_out = 0; w.s = s; w.what = what;
    if (kwait_ready(&w)) return;
    ksim_blocking_polls++;
    if (ksim_sched_wait) ksim_sched_wait(kwait_ready, &w, 0, &timed_out);
    else if (block_jmp) longjmp(*block_jmp, 1);
    else { fprintf(stderr, "KSIM: a system call on a blocking descriptor would wait forever\n"); abort(); }
}
static int poll_ready(void *arg) { struct pollfd *f = arg; KSock *s = ksim_is_fd(f->fd) ? &S[f->fd - KFD0] : NULL; if (!s || s->state == S_FREE || s->state == S_CLOSED) return 1; return revents_of(s, f->events) != 0; }
int __real_poll(struct pollfd *, nfds_t, int);
int __wrap_poll(struct pollfd *fds, nfds_t n, int timeout)
{
    KSock *s; int timed_out = 0;
    if (n != 1 || !ksim_is_fd(fds[0].fd)) return __real_poll(fds, n, timeout);
    point(12, NULL); ksim_polls++;
    if (deviation(2, "poll")) { get(fds[0].fd); errno = EINTR; return -1; }
    s = get(fds[0].fd);
    if (!s) { fds[0].revents = POLLNVAL; return 1; }
    cur_pfd = fds;
    if (!poll_ready(fds)) {
        if (timeout == 0) { fds[0].revents = 0; return 0; }
        ksim_blocking_polls++;
        if (ksim_sched_wait) ksim_sched_wait(poll_ready, fds, timeout > 0, &timed_out);
        else if (timeout > 0) timed_out = 1;
        else if (block_jmp) longjmp(*block_jmp, 1);
        else { fprintf(stderr, "KSIM: poll would block forever\n"); abort(); }
        if (timed_out) { ksim_clock_ms += (unsigned long)timeout; fds[0].revents = 0; return 0; }
    }
    fds[0].revents = revents_of(s, fds[0].events);
    if (ksim_observe) ksim_observe(s, (uint64_t)fds[0].revents);
    return 1;
}
