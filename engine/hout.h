/* Harness -> driver result channel.  JSON lines into the file named by env VERIF_OUT (P_ERROR/P_WARNING
 * print to stdout, so stdout is never used for results), plus a MAP_SHARED "progress" record that survives
 * a crash of the harness so the driver can attribute a SIGSEGV / sanitizer abort to one history. */
#ifndef VERIF_HOUT_H
#define VERIF_HOUT_H
#include <stdio.h>
#include <stdlib.h>
#include <string.h>
#include <stdarg.h>
#include <fcntl.h>
#include <unistd.h>
#include <sys/mman.h>

static FILE *hout_f;
static char *hout_prog;          /* 64 KiB shared progress buffer */
#define HOUT_PROG_SZ 65536
static long hout_nviol;
static int hout_max_viol = 40;   /* identical-signature floods are cut by the harness' own sig table */

static void hout_open(void)
{
    const char *p = getenv("VERIF_OUT");
    hout_f = p ? fopen(p, "a") : stderr;
    if (!hout_f) { perror("VERIF_OUT"); exit(2); }
    p = getenv("VERIF_PROGRESS");
    if (p) {
        int fd = open(p, O_RDWR | O_CREAT, 0600);
        if (fd < 0 || ftruncate(fd, HOUT_PROG_SZ) != 0) { perror("VERIF_PROGRESS"); exit(2); }
        hout_prog = mmap(NULL, HOUT_PROG_SZ, PROT_READ | PROT_WRITE, MAP_SHARED, fd, 0);
        if (hout_prog == MAP_FAILED) { perror("mmap progress"); exit(2); }
        close(fd);
    } else {
        hout_prog = malloc(HOUT_PROG_SZ);
    }
    hout_prog[0] = 0;
}

static void hout_esc(FILE *f, const char *s)
{
    fputc('"', f);
    for (; *s; s++) {
        unsigned char c = (unsigned char)*s;
        if (c == '"' || c == '\\') { fputc('\\', f); fputc(c, f); }
        else if (c == '\n') fputs("\\n", f);
        else if (c < 0x20 || c >= 0x7f) fprintf(f, "\\u%04x", c);
        else fputc(c, f);
    }
    fputc('"', f);
}

/* numeric statistic; the driver sums equal keys over jobs unless the key starts with "max_" (max) */
static void hout_stat(const char *key, long long v)
{
    fprintf(hout_f, "{\"t\":\"stat\",\"k\":\"%s\",\"v\":%lld}\n", key, v);
    fflush(hout_f);
}

static void hout_sample(const char *fmt, ...)
{
    char buf[4096]; va_list ap;
    va_start(ap, fmt); vsnprintf(buf, sizeof buf, fmt, ap); va_end(ap);
    fputs("{\"t\":\"sample\",\"s\":", hout_f); hout_esc(hout_f, buf); fputs("}\n", hout_f);
    fflush(hout_f);
}

static void hout_note(const char *fmt, ...)
{
    char buf[4096]; va_list ap;
    va_start(ap, fmt); vsnprintf(buf, sizeof buf, fmt, ap); va_end(ap);
    fputs("{\"t\":\"note\",\"s\":", hout_f); hout_esc(hout_f, buf); fputs("}\n", hout_f);
    fflush(hout_f);
}

/* violation: prop = property id, sig = stable signature (names the failing thing), replay = text the harness'
 * --replay mode understands, desc = human text */
static void hout_viol(const char *prop, const char *sig, const char *replay, const char *fmt, ...)
{
    char buf[8192]; va_list ap;
    va_start(ap, fmt); vsnprintf(buf, sizeof buf, fmt, ap); va_end(ap);
    hout_nviol++;
    fputs("{\"t\":\"viol\",\"p\":", hout_f); hout_esc(hout_f, prop);
    fputs(",\"sig\":", hout_f); hout_esc(hout_f, sig);
    fputs(",\"replay\":", hout_f); hout_esc(hout_f, replay ? replay : "");
    fputs(",\"desc\":", hout_f); hout_esc(hout_f, buf); fputs("}\n", hout_f);
    fflush(hout_f);
}

static void hout_progress(const char *fmt, ...)
{
    va_list ap;
    va_start(ap, fmt); vsnprintf(hout_prog, HOUT_PROG_SZ, fmt, ap); va_end(ap);
}

#endif
