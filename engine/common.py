"""Driver-side plumbing shared by all checks: running harnesses, collecting their JSON lines, known findings,
replay files, evidence files, exit codes."""
import fnmatch, json, os, signal, subprocess, sys, tempfile, time, hashlib
from concurrent.futures import ThreadPoolExecutor

VERIF = os.path.dirname(os.path.dirname(os.path.abspath(__file__)))
EVID = os.environ.get("VERIF_EVID", os.path.join(VERIF, "evidence"))
REPLAYS = os.environ.get("VERIF_REPLAYS", os.path.join(VERIF, "replays"))
KNOWN = os.path.join(VERIF, "known_findings.txt")
SCRATCH = os.path.join(os.environ.get("VERIF_BUILD", os.path.join(VERIF, "build")), "scratch")

ASAN_ENV = {"ASAN_OPTIONS": "detect_leaks=0:abort_on_error=0:exitcode=99:allocator_may_return_null=1:max_malloc_fill_size=65536:malloc_fill_byte=165",
            "UBSAN_OPTIONS": "print_stacktrace=1:halt_on_error=1:exitcode=98"}


class EngineError(Exception):
    """the machinery itself failed (exit 2) - never a property verdict"""


class Acc:
    """accumulates what harness jobs report"""

    def __init__(self):
        self.stats = {}
        self.samples = []
        self.viols = []
        self.notes = []
        self.jobs = []
        self.outcomes = {}     # job -> list of distinct outcome strings of the exploration
        self.exists = {}       # job -> mask of existential facts reached by some execution
        self.incomplete = []   # names of bounds that were not completed (deadline / cap)
        self.engine_errors = []  # jobs that failed for an engine reason (capacity, time limit): fatal (exit 2) unless another job of the run found a new violation

    def add_stat(self, k, v):
        if k.startswith("max_"):
            self.stats[k] = max(self.stats.get(k, 0), v)
        else:
            self.stats[k] = self.stats.get(k, 0) + v

    def merge_lines(self, lines, job):
        for ln in lines:
            ln = ln.strip()
            if not ln:
                continue
            try:
                o = json.loads(ln)
            except ValueError:
                raise EngineError("unparsable harness line from %s: %r" % (job, ln[:200]))
            t = o.get("t")
            if t == "stat":
                self.add_stat(o["k"], o["v"])
            elif t == "sample":
                if len(self.samples) < 12:
                    self.samples.append("[%s] %s" % (job, o["s"]))
            elif t == "note":
                self.notes.append("[%s] %s" % (job, o["s"]))
            elif t == "viol":
                o["job"] = job
                self.viols.append(o)
            elif t == "outcomes":
                self.outcomes[job] = o.get("list", [])
            elif t == "exists":
                self.exists[job] = self.exists.get(job, 0) | int(o.get("mask", 0))
            elif t == "incomplete":
                self.incomplete.append("[%s] %s" % (job, o.get("s", "")))


import threading
_fill_lock = threading.Lock()
_fill_turn = 0


def run_harness(exe, args, acc, job, timeout=600, env=None, cwd=None, crash_prop=None, crash_sig="crash",
                ok_codes=(0,), stdin=None, stall=150, fill=None):
    """runs one harness process; harness results come through VERIF_OUT; a crash becomes a violation of
    crash_prop attributed to the harness' last progress record (or an EngineError if crash_prop is None).
    stall: a harness that publishes progress records (one per transition / input) and whose record does not change for that many
    seconds while the process is still running is stuck inside the library call it announced: it is killed and the hang is a violation
    of crash_prop (a call that never returns).  0 switches this off (jobs whose single steps legitimately take minutes)."""
    os.makedirs(SCRATCH, exist_ok=True)
    fd, outp = tempfile.mkstemp(prefix="out_", dir=SCRATCH); os.close(fd)
    fd, progp = tempfile.mkstemp(prefix="prog_", dir=SCRATCH); os.close(fd)
    fd, logp = tempfile.mkstemp(prefix="log_", dir=SCRATCH); os.close(fd)
    e = dict(os.environ)
    e.update(ASAN_ENV)
    # heap fill pattern of the sanitizer run-time: 0xA5 or its complement 0x5A, alternating from one job of the run to the next, so that over the jobs of a check every bit of a field
    # that was never assigned reads as 1 somewhere (a one-bit flag left unassigned is invisible to a single pattern in which its bit is 0)
    global _fill_turn
    with _fill_lock:
        _fill_turn += 1
        odd = _fill_turn % 2 if fill is None else fill
    if odd:
        e["ASAN_OPTIONS"] = e["ASAN_OPTIONS"].replace("malloc_fill_byte=165", "malloc_fill_byte=90")
    if env:
        e.update(env)
    e["VERIF_OUT"] = outp
    e["VERIF_PROGRESS"] = progp
    ipclog = outp + ".ipc"
    e["VERIF_IPCLOG"] = ipclog
    t0 = time.time()
    try:
        with open(logp, "wb") as logf:
            pr = subprocess.Popen([exe] + [str(a) for a in args], stdout=logf, stderr=subprocess.STDOUT, env=e, cwd=cwd, stdin=stdin or subprocess.DEVNULL)
            last, last_t, rc = None, time.time(), None
            while True:
                try:
                    rc = pr.wait(timeout=2)
                    break
                except subprocess.TimeoutExpired:
                    pass
                now = time.time()
                if now - t0 > timeout:
                    pr.kill(); pr.wait(); rc = "timeout"; break
                if stall and crash_prop:
                    try:
                        cur = open(progp, "rb").read(600).split(b"\0")[0]
                    except OSError:
                        cur = b""
                    if cur != last:
                        last, last_t = cur, now
                    elif cur and now - last_t > stall:
                        pr.kill(); pr.wait(); rc = "stalled"; break
        lines = open(outp).read().splitlines()
        acc.merge_lines(lines, job)
        acc.jobs.append(dict(job=job, rc=rc, wall_s=round(time.time() - t0, 2)))
        if rc == "timeout":
            acc.engine_errors.append("harness job %s exceeded its %ss limit (engine problem, not a verdict)" % (job, timeout))
            return
        if rc == "stalled":
            prog = last.decode("utf-8", "replace")
            sig = crash_sig
            if prog.startswith("sig="):
                sig, _, prog = prog[4:].partition(" ")
            acc.viols.append(dict(t="viol", p=crash_prop, sig="%s/hang" % sig, replay=prog, job=job,
                                  desc="the harness made no progress for %d s inside the step it had announced (a library call that does not return): %s" % (stall, prog[:400])))
            return 1
        if rc not in ok_codes and rc != 1:
            prog = ""
            try:
                prog = open(progp, "rb").read().split(b"\0")[0].decode("utf-8", "replace")
            except OSError:
                pass
            tail = open(logp, "rb").read()[-3000:].decode("utf-8", "replace")
            if rc == 2 or crash_prop is None:
                acc.engine_errors.append("harness job %s failed rc=%s\nprogress: %s\nlog tail:\n%s" % (job, rc, prog[:500], tail))
                return
            what = "signal %d" % (-rc) if isinstance(rc, int) and rc < 0 else "exit %s" % rc
            kind = "crash"
            if "AddressSanitizer" in tail:
                kind = "asan"
                for ln in tail.splitlines():
                    if "ERROR: AddressSanitizer" in ln:
                        what = ln.strip()[:200]
                        break
            elif "runtime error" in tail:
                kind = "ubsan"
                for ln in tail.splitlines():
                    if "runtime error" in ln:
                        what = ln.strip()[:300]
                        break
            sig = crash_sig
            if prog.startswith("sig="):
                sig, _, prog = prog[4:].partition(" ")
            acc.viols.append(dict(t="viol", p=crash_prop, sig="%s/%s" % (sig, kind), replay=prog,
                                  desc="harness process died (%s) while executing: %s\n%s" % (what, prog[:400], tail[-1500:]),
                                  job=job))
        return rc
    finally:
        try:
            for ln in open(ipclog):
                ln = ln.strip()
                if ln.startswith("/dev/shm/"):
                    try:
                        os.unlink(ln)
                    except OSError:
                        pass
        except OSError:
            pass
        for p in (outp, progp, logp, ipclog):
            try:
                os.unlink(p)
            except OSError:
                pass


def parallel(fn, items, workers=16):
    with ThreadPoolExecutor(max_workers=workers) as ex:
        return list(ex.map(fn, items))


def load_known():
    known, fixed = [], []
    if os.path.exists(KNOWN):
        for ln in open(KNOWN):
            ln = ln.strip()
            if not ln or ln.startswith("#"):
                continue
            kind, _, rest = ln.partition(":")
            parts = rest.split()
            d = {}
            text = []
            for p in parts:
                if "=" in p and not text and p.split("=")[0] in ("property", "sig"):
                    k, v = p.split("=", 1)
                    d[k] = v
                else:
                    text.append(p)
            d["text"] = " ".join(text)
            (known if kind.strip() == "known" else fixed).append(d)
    return known, fixed


def finish(prop, tier, level, acc, coverage, assumptions, t0, extra=None):
    """filters violations through known_findings, writes replays + evidence, prints verdict lines, returns exit code"""
    known, _ = load_known()
    known = [k for k in known if k.get("property") == prop]
    os.makedirs(EVID, exist_ok=True)
    new, matched = [], {}
    seen_sig = set()
    for v in acc.viols:
        if v.get("p", prop) != prop:
            continue
        k = next((k for k in known if fnmatch.fnmatchcase(v["sig"], k["sig"])), None)
        if k:
            matched.setdefault(k["sig"], (k, []))[1].append(v)
        elif v["sig"] not in seen_sig:
            seen_sig.add(v["sig"])
            new.append(v)
    for sig, (k, vs) in sorted(matched.items()):
        print("KNOWN-FINDING: property=%s %s (sig=%s, %d occurrence(s) in this run)" % (prop, k["text"], sig, len(vs)))
    if acc.engine_errors and not new:
        # a job that could not finish for a reason of the machinery: no verdict (exit 2) - unless the jobs that did finish already found a violation,
        # which stands on its own (its schedule / history has been replayed)
        raise EngineError(acc.engine_errors[0] + ("\n(+ %d more job(s))" % (len(acc.engine_errors) - 1) if len(acc.engine_errors) > 1 else ""))
    for m in acc.engine_errors[:3]:
        print("note: a job ended with an engine error next to the violation(s) reported below: %s" % m.splitlines()[0][:200])
    rc = 0
    if new:
        rc = 1
        d = os.path.join(REPLAYS, prop)
        os.makedirs(d, exist_ok=True)
        for i, v in enumerate(new[:20]):
            h = hashlib.sha1(v["sig"].encode()).hexdigest()[:10]
            path = os.path.join(d, "%s_%s.json" % (tier, h))
            json.dump(dict(property=prop, signature=v["sig"], job=v.get("job"), replay=v.get("replay"),
                           description=v.get("desc")), open(path, "w"), indent=1)
            print("VIOLATION property=%s replay=%s" % (prop, path))
            print("  signature: %s" % v["sig"])
            for ln in (v.get("desc") or "").splitlines()[:12]:
                print("  | " + ln)
    cov = dict(coverage)
    cov.setdefault("samples", acc.samples[:8] or ["(no sample reported)"])
    cov["exhaustive"] = bool(cov.get("exhaustive", True)) and not acc.incomplete
    if acc.incomplete:
        cov["bounds_not_completed"] = acc.incomplete[:20]
    cov["stats"] = acc.stats
    cov["jobs"] = acc.jobs[:64]
    if acc.notes:
        cov["notes"] = acc.notes[:40]
    cov["known_findings_matched"] = sorted(matched.keys())
    if extra:
        cov.update(extra)
    ev = dict(property_id=prop, tier=tier, seed=int(os.environ.get("VERIF_SEED", "0") or 0), level=level,
              coverage=cov, assumptions=assumptions, wall_s=round(time.time() - t0, 2),
              violations=len(new))
    json.dump(ev, open(os.path.join(EVID, prop + ".json"), "w"), indent=1, sort_keys=True)
    print("%s %s: %s  (%.1fs)  %s" % (prop, tier, "VIOLATED" if rc else "held on everything explored",
                                       time.time() - t0,
                                       " ".join("%s=%s" % (k, cov[k]) for k in ("states", "transitions", "evaluations",
                                                                                 "distinct_nontrivial", "exhaustive") if k in cov)))
    return rc
