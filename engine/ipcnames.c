/* Records every named IPC object the library creates (shm_open / sem_open with O_CREAT), so that
 *  - the driver can remove names left behind by a crashed or violating execution (file $VERIF_IPCLOG, appended at
 *    creation time, survives a crash), and
 *  - harnesses can ask which names created by this process still exist (the IPC-name ledger).
 * Linked with -Wl,--wrap=shm_open,--wrap=sem_open (see IPCNAMES_LDFLAGS in checks). */
#include <fcntl.h>
#include <semaphore.h>
#include <stdarg.h>
#include <stdio.h>
#include <stdlib.h>
#include <string.h>
#include <sys/mman.h>
#include <sys/stat.h>
#include <unistd.h>

#ifdef MCRT_IPC
int __real_close(int);
#define close __real_close
#endif
int __real_shm_open(const char *name, int oflag, mode_t mode);
sem_t *__real_sem_open(const char *name, int oflag, ...);

#define MAXN 256
static char names[MAXN][64];   /* "/dev/shm/<x>" path of each object */
static int nnames;

void ipcnames_remember(const char *path)
{
    int i, fd;
    const char *log;
    for (i = 0; i < nnames; i++) if (!strcmp(names[i], path)) return;
    if (nnames < MAXN) { { int k; for (k = 0; k < 63 && path[k]; k++) names[nnames][k] = path[k]; names[nnames][k] = 0; } nnames++; }
    log = getenv("VERIF_IPCLOG");
    if (log && (fd = open(log, O_WRONLY | O_APPEND | O_CREAT, 0600)) >= 0) {
        char b[80]; int n = snprintf(b, sizeof b, "%s\n", path);
        if (write(fd, b, n) < 0) {}
        close(fd);
    }
}

#if !defined(MCRT_IPC) && !defined(IPCNAMES_NO_WRAPPERS)   /* the mcrt build has its own wrappers (engine/mcrt_ipc.c) which call ipcnames_remember */
int __wrap_shm_open(const char *name, int oflag, mode_t mode)
{
    if (oflag & O_CREAT) { char p[64]; snprintf(p, sizeof p, "/dev/shm/%s", name[0] == '/' ? name + 1 : name); ipcnames_remember(p); }
    return __real_shm_open(name, oflag, mode);
}

sem_t *__wrap_sem_open(const char *name, int oflag, ...)
{
    mode_t mode = 0; unsigned value = 0;
    if (oflag & O_CREAT) {
        va_list ap; char p[64];
        va_start(ap, oflag); mode = va_arg(ap, mode_t); value = va_arg(ap, unsigned); va_end(ap);
        snprintf(p, sizeof p, "/dev/shm/sem.%s", name[0] == '/' ? name + 1 : name); ipcnames_remember(p);
        return __real_sem_open(name, oflag, mode, value);
    }
    return __real_sem_open(name, oflag);
}

#endif

/* number of recorded names that still exist; fills buf with a space separated list */
int ipcnames_live(char *buf, size_t sz)
{
    int i, n = 0; size_t o = 0; struct stat st;
    if (buf && sz) buf[0] = 0;
    for (i = 0; i < nnames; i++) if (stat(names[i], &st) == 0) {
        n++;
        if (buf && o + 70 < sz) o += snprintf(buf + o, sz - o, "%s ", names[i]);
    }
    return n;
}

void ipcnames_remove_all(void)
{
    int i;
    for (i = 0; i < nnames; i++) unlink(names[i]);
}
