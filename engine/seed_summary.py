#!/usr/bin/env python3
"""Regenerates seeded/SUMMARY.txt from the meta.json files."""
import json, os
VERIF = os.path.dirname(os.path.dirname(os.path.abspath(__file__)))
sd = os.path.join(VERIF, "seeded")
rows = []
for d in sorted(os.listdir(sd)):
    mp = os.path.join(sd, d, "meta.json")
    if not os.path.exists(mp):
        continue
    m = json.load(open(mp))
    st = m.get("status", "?") + (" (by hand, see note)" if m.get("note") and "hand" in m.get("note", "") else "")
    det = ",".join(m.get("detected_by") or []) or "-"
    rows.append("%-10s %-34s detected by (%s tier): %s" % (d, st, m.get("tier", "quick"), det))
open(os.path.join(sd, "SUMMARY.txt"), "w").write("\n".join(rows) + "\n")
print("%d seeds" % len(rows))
