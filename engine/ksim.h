/* KSIM: in-memory POSIX socket layer (engine/ksim.c) - harness-visible controls and observers */
#ifndef VERIF_KSIM_H
#define VERIF_KSIM_H
#include <setjmp.h>
#include <stdint.h>
extern int ksim_rxcap, ksim_dgcap;           /* stream receive buffer (bytes) and datagram queue (datagrams) capacities */
extern unsigned long ksim_clock_ms;          /* virtual clock */
extern long ksim_calls, ksim_calls_on_bad_fd, ksim_blocking_polls, ksim_polls;
extern long ksim_calls_on_closed_fd;      /* system calls on a descriptor number that was a socket and has been closed (numbers are not reused inside one history) */
extern int ksim_sigpipe_ignored, ksim_connect_immediate;
void ksim_reset(void);
void ksim_set_block_handler(jmp_buf *jb);    /* standalone mode: a poll that would block forever longjmps here */
void ksim_set_deviation_hook(int (*fn)(int n, const char *what));   /* standalone mode: environment deviations */
int  ksim_is_fd(int fd);
int  ksim_open_sockets(void);
int  ksim_fd_cloexec(int fd);
int  ksim_fd_nonblock(int fd);
uint32_t ksim_fingerprint(void);
#endif
