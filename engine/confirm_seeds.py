#!/usr/bin/env python3
"""Confirms seeded property-breaking changes (produced by independent sub-agents) and files them under /verif/seeded/.

For each seed: scratch worktree of /repo HEAD at the path the seed was written for, baseline build + demo (must pass),
apply the patch, rebuild, run the repository tests of the touched modules + pmain_test (must pass), demo again (must fail),
then run our own checks against the patched /repo and record which signatures they report.  The worktree is removed.

usage: confirm_seeds.py <seeds-dir> [<Cxx> ...]
"""
import json, os, re, shutil, subprocess, sys, time

VERIF = os.path.dirname(os.path.dirname(os.path.abspath(__file__)))
REPO = "/repo"
TESTS = [("ptree", ["ptree_test"]), ("pcryptohash", ["pcryptohash_test"]), ("patomic", ["patomic_test"]), ("pspinlock", ["pspinlock_test"]), ("pmutex", ["pmutex_test"]),
         ("pcondvariable", ["pcondvariable_test"]), ("prwlock", ["prwlock_test"]), ("puthread", ["puthread_test"]), ("psemaphore", ["psemaphore_test", "pshm_test", "pshmbuffer_test"]),
         ("pshmbuffer", ["pshmbuffer_test"]), ("pshm", ["pshm_test", "pshmbuffer_test"]), ("psocketaddress", ["psocketaddress_test", "psocket_test"]), ("psocket", ["psocket_test"]),
         ("pinifile", ["pinifile_test"]), ("phashtable", ["phashtable_test"]), ("plist", ["plist_test", "pinifile_test"]), ("pdir", ["pdir_test"]), ("pstring", ["pstring_test"]),
         ("perror", ["perror_test"]), ("pmem", ["pmem_test"]), ("pipc", ["psemaphore_test", "pshm_test"]), ("plibraryloader", ["plibraryloader_test"])]
ALT_MODELS = {"patomic-sync.c": ["patomic-sync.c", "pspinlock-sync.c"], "pspinlock-sync.c": ["patomic-sync.c", "pspinlock-sync.c"],
              "patomic-sim.c": ["patomic-sim.c", "pspinlock-sim.c"], "pspinlock-sim.c": ["patomic-sim.c", "pspinlock-sim.c"], "prwlock-general.c": ["prwlock-general.c"]}
# which of our checks are run against each seed (the property it targets first)
EXTRA = {"C16": ["C20"], "C11": ["C18"], "C15": ["C18"], "C04": ["C01"], "C01": ["C03"], "C20": ["C05", "C18"], "C18": ["C20"], "C10": ["C09", "C19"], "C09": ["C19", "C10"], "C19": ["C09"], "C12": ["C14", "C13"], "C13": ["C12"], "C14": ["C12"], "C08": ["C07"], "C07": ["C08", "C06", "C20"], "C06": ["C07"]}


def sh(cmd, cwd=None, timeout=1200):
    t0 = time.time()
    try:
        r = subprocess.run(cmd, shell=True, cwd=cwd, stdout=subprocess.PIPE, stderr=subprocess.STDOUT, text=True, timeout=timeout)
        return r.returncode, r.stdout[-3000:], round(time.time() - t0, 1)
    except subprocess.TimeoutExpired:
        return 124, "TIMEOUT", round(time.time() - t0, 1)


def build(wt):
    rc, out, _ = sh("cmake -G Ninja -S . -B _b >/dev/null 2>&1 && cmake --build _b 2>&1 | tail -3", cwd=wt)
    return rc == 0 and "FAILED" not in out and "error:" not in out.lower(), out


def demo_cmd(wt, sd, touched):
    if os.path.exists(os.path.join(sd, "demo.sh")):
        return "sh %s/demo.sh" % sd, "demo.sh"
    src = "demo.c" if os.path.exists(os.path.join(sd, "demo.c")) else "demo.cpp"
    cc = "gcc" if src.endswith(".c") else "g++"
    alt = []
    for t in touched:
        for m in ALT_MODELS.get(os.path.basename(t), []):
            p = "%s/src/%s" % (wt, m)
            if p not in alt:
                alt.append(p)
    extra = ("-DPLIBSYS_COMPILATION -DPLIBSYS_STATIC -D_REENTRANT -D_GNU_SOURCE " + " ".join(alt)) if alt else ""
    return ("%s -w -I%s/src -I%s/_b/src %s %s/%s %s/_b/src/libplibsysstatic.a -pthread -lrt -ldl -lm -o %s/demo_bin && %s/demo_bin" % (cc, wt, wt, extra, sd, src, wt, sd, sd),
            "demo built with %s%s" % (cc, " together with the alternative model source(s) " + ", ".join(os.path.basename(a) for a in alt) if alt else ""))


def confirm(seeds, pid, n):
    sd = os.path.join(seeds, pid, str(n))
    patch = os.path.join(sd, "patch_adapted.diff") if os.path.exists(os.path.join(sd, "patch_adapted.diff")) else os.path.join(sd, "patch.diff")
    wt = "/tmp/wt/%s" % pid
    meta = dict(property=pid, seed=n, patch=os.path.basename(patch), adapted=patch.endswith("adapted.diff"), ran=[])
    sh("git -C %s worktree remove --force %s" % (REPO, wt)); shutil.rmtree(wt, ignore_errors=True)
    rc, out, _ = sh("git -C %s worktree add --detach %s HEAD" % (REPO, wt))
    if rc:
        meta["status"] = "worktree failed"; return meta
    try:
        # the demo directory must be where the seed's scripts expect it
        os.makedirs(os.path.join(wt, "seed"), exist_ok=True)
        wsd = os.path.join(wt, "seed", str(n)); shutil.copytree(sd, wsd)
        touched = re.findall(r"^\+\+\+ b/(\S+)", open(patch).read(), re.M)
        ok, out = build(wt); meta["ran"].append(dict(step="baseline build", ok=ok))
        if not ok:
            meta["status"] = "baseline build failed"; return meta
        cmd, how = demo_cmd(wt, wsd, touched)
        rc0, out0, t0 = sh(cmd, cwd=wsd, timeout=900); meta["ran"].append(dict(step="demo without the change (%s)" % how, rc=rc0, wall_s=t0, tail=out0[-300:]))
        rc, out, _ = sh("git apply %s" % patch, cwd=wt); meta["ran"].append(dict(step="git apply", rc=rc, tail=out[-200:]))
        if rc:
            meta["status"] = "patch does not apply to the current tree"; return meta
        ok, out = build(wt); meta["ran"].append(dict(step="build with the change", ok=ok, tail="" if ok else out[-400:]))
        if not ok:
            meta["status"] = "does not compile"; return meta
        tests = ["pmain_test"]
        for key, ts in TESTS:
            if any(os.path.basename(t).startswith(key) for t in touched):
                tests += [t for t in ts if t not in tests]
        tests_ok = True
        for t in tests:
            rc, out, tt = sh("%s/_b/tests/%s" % (wt, t), cwd=wt, timeout=1500)
            if rc != 0:      # fixed IPC names / ports: retry once in case of a collision with another run
                rc, out, tt = sh("%s/_b/tests/%s" % (wt, t), cwd=wt, timeout=1500)
            meta["ran"].append(dict(step="repository test %s with the change" % t, rc=rc, wall_s=tt))
            tests_ok = tests_ok and rc == 0
        rc1, out1, t1 = sh(cmd, cwd=wsd, timeout=900); meta["ran"].append(dict(step="demo with the change", rc=rc1, wall_s=t1, tail=out1[-400:]))
        meta["demo_discriminates"] = (rc0 == 0 and rc1 != 0)
        meta["tests_pass_with_change"] = tests_ok
    finally:
        sh("git -C %s worktree remove --force %s" % (REPO, wt)); shutil.rmtree(wt, ignore_errors=True)
    # our checks against the patched /repo
    det = {}
    if os.environ.get("CONFIRM_ISOLATED"):      # checks run by engine/tryseed.py in a scratch worktree: safe to run several confirmations at once
        chks = [pid] + (EXTRA.get(pid, []) if not os.environ.get("CONFIRM_NO_EXTRA") else [])
        t0 = time.time()
        rc, out, _ = sh("python3 %s/engine/tryseed.py %s quick %s" % (VERIF, patch, " ".join(chks)), cwd=VERIF, timeout=6000)
        for m in re.finditer(r"^(C\d\d) rc=(\d+) ?(.*)$", out, re.M):
            det[m.group(1)] = dict(rc=int(m.group(2)), signatures=m.group(3).split()[:8])
        meta["checks_wall_s"] = round(time.time() - t0, 1)
        rc = 1
    else:
        rc, out, _ = sh("git -C %s apply %s" % (REPO, patch))
    if rc == 0:
        try:
            for chk in [pid] + EXTRA.get(pid, []):
                rc, out, tt = sh("python3 run.py %s --tier quick" % chk, cwd=VERIF, timeout=3000)
                sigs = re.findall(r"^  signature: (\S+)", out, re.M)
                det[chk] = dict(rc=rc, wall_s=tt, signatures=sigs[:8])
        finally:
            sh("git -C %s checkout -- ." % REPO); sh("git -C %s checkout -- evidence" % VERIF)
    meta["our_checks_quick"] = det
    meta["detected_by"] = sorted(k for k, v in det.items() if v["rc"] == 1)
    meta["status"] = "confirmed" if meta.get("demo_discriminates") and meta.get("tests_pass_with_change") else "not confirmed"
    return meta


def main():
    seeds = sys.argv[1]
    ids = sys.argv[2:] or sorted(os.listdir(seeds))
    for pid in ids:
        for n in sorted(os.listdir(os.path.join(seeds, pid))):
            if not n.isdigit():
                continue
            m = confirm(seeds, pid, int(n))
            readme = os.path.join(seeds, pid, n, "README.txt")
            m["needs_to_manifest"] = ""
            if os.path.exists(readme):
                txt = open(readme, errors="replace").read()
                mm = re.search(r"(?is)(needs?[^\n]*manifest[^\n]*\n(?:.*\n){0,6})", txt)
                m["needs_to_manifest"] = (mm.group(1) if mm else txt[:600]).strip()[:900]
            tag = os.environ.get("SEED_TAG", "")
            out = os.path.join(VERIF, "seeded", "%s_%s%s" % (pid, tag + "_" if tag else "", n))
            if m["status"] == "confirmed":
                shutil.rmtree(out, ignore_errors=True); os.makedirs(out)
                for f in os.listdir(os.path.join(seeds, pid, n)):
                    if f.endswith((".diff", ".c", ".cpp", ".sh", ".txt", ".py")) and os.path.getsize(os.path.join(seeds, pid, n, f)) < 200000:
                        shutil.copy(os.path.join(seeds, pid, n, f), out)
                json.dump(m, open(os.path.join(out, "meta.json"), "w"), indent=1)
            else:
                os.makedirs(os.path.join(VERIF, "build", "seed_rejects"), exist_ok=True)
                json.dump(m, open(os.path.join(VERIF, "build", "seed_rejects", "%s_%s%s.json" % (pid, os.environ.get("SEED_TAG", ""), n)), "w"), indent=1)
            print("%s seed %s: %s; demo %s->%s; tests %s; detected by %s" % (pid, n, m["status"], [r.get("rc") for r in m["ran"] if r["step"].startswith("demo without")], [r.get("rc") for r in m["ran"] if r["step"] == "demo with the change"],
                                                                              m.get("tests_pass_with_change"), m.get("detected_by")), flush=True)


if __name__ == "__main__":
    main()
