/* mcrt core: baton-passing scheduler over real pthreads, choice recording/replay, preemption-bounded DFS explorer
 * (fork per execution).  Not compiled with -fsanitize=thread. */
#include "mcrt_int.h"
#include <errno.h>
#include <stdarg.h>
#include <signal.h>
#include <time.h>
#include <unistd.h>
#include <sys/mman.h>
#include <sys/syscall.h>
#include <sys/wait.h>
#include <linux/futex.h>
#include <sched.h>
#include "hout.h"

/* the explorer itself allocates from libc, not from the per-execution arena */
void *__real_malloc(size_t); void __real_free(void *); void *__real_realloc(void *, size_t); void *__real_calloc(size_t, size_t);
#define malloc __real_malloc
#define free __real_free
#define realloc __real_realloc
#define calloc __real_calloc
static char *x_strdup(const char *s) { size_t n = strlen(s) + 1; char *p = __real_malloc(n); memcpy(p, s, n); return p; }
#define strdup x_strdup

Ctl *ctl;
Thread T[MAXT];
int cur;
int nthreads;
int mc_active;
unsigned long vclock_ms;
__thread int my_tid;

static int choice_pos;
static long observes[8];

/* ------------------------------------------------------------------ utilities */
static void futex_wait(volatile int *w, int val) { syscall(SYS_futex, w, FUTEX_WAIT, val, NULL, NULL, 0); }
static void futex_wake(volatile int *w) { syscall(SYS_futex, w, FUTEX_WAKE, 1, NULL, NULL, 0); }

void mc_log(const char *fmt, ...)
{
    va_list ap; int n;
    if (!ctl || ctl->log_len > (long)sizeof ctl->log - 300) return;
    va_start(ap, fmt);
    n = vsnprintf(ctl->log + ctl->log_len, 280, fmt, ap);
    va_end(ap);
    if (n > 279) n = 279;
    ctl->log_len += n;
    ctl->log[ctl->log_len++] = '\n';
}

void mc_engine_error(const char *fmt, ...)
{
    va_list ap;
    va_start(ap, fmt);
    if (ctl) { ctl->engine_error = 1; vsnprintf(ctl->engine_msg, sizeof ctl->engine_msg, fmt, ap); }
    else vfprintf(stderr, fmt, ap);
    va_end(ap);
    _exit(3);
}

static void describe_threads(char *buf, size_t sz)
{
    size_t o = 0; int i;
    for (i = 0; i < nthreads && o + 200 < sz; i++) {
        char b[160];
        if (T[i].finished) { o += snprintf(buf + o, sz - o, "T%d finished; ", i); continue; }
        pthread_model_describe_block(&T[i], b, sizeof b);
        o += snprintf(buf + o, sz - o, "T%d %s; ", i, b);
    }
}

void mc_violation(const char *prop, const char *sig, const char *fmt, ...)
{
    va_list ap; size_t o;
    if (!ctl || !mc_active) { va_start(ap, fmt); vfprintf(stderr, fmt, ap); va_end(ap); fprintf(stderr, "\n(violation outside an execution: %s)\n", sig); _exit(3); }
    ctl->violated = 1;
    snprintf(ctl->prop, sizeof ctl->prop, "%s", prop);
    snprintf(ctl->sig, sizeof ctl->sig, "%s", sig);
    va_start(ap, fmt); vsnprintf(ctl->desc, sizeof ctl->desc - 800, fmt, ap); va_end(ap);
    o = strlen(ctl->desc);
    o += snprintf(ctl->desc + o, sizeof ctl->desc - o, "\n  threads: ");
    describe_threads(ctl->desc + o, sizeof ctl->desc - o);
    _exit(77);
}

/* ------------------------------------------------------------------ harness API */
void mc_fail(const char *prop, const char *sig, const char *fmt, ...)
{
    char b[1500]; va_list ap;
    va_start(ap, fmt); vsnprintf(b, sizeof b, fmt, ap); va_end(ap);
    mc_violation(prop, sig, "%s", b);
}
void mc_outcome(const char *fmt, ...) { va_list ap; va_start(ap, fmt); vsnprintf(ctl->outcome, sizeof ctl->outcome, fmt, ap); va_end(ap); }
void mc_nontrivial(int slot) { if (ctl) ctl->nontrivial_mask |= 1u << (slot & 31); }
void mc_exists(int slot) { if (ctl) ctl->exists_mask |= 1u << (slot & 31); }
void mc_observe(int slot, long v) { observes[slot & 7] = v; }
void mc_step(void) { sched_point(OP_STEP, NULL, 0); }
int mc_self(void) { return my_tid; }
int mc_is_free_running(void) { return 0; }
long mc_exec_id(void) { return ctl ? ctl->exec_id : 0; }
void mc_wait_all(void) { int i; sched_point(OP_WAITALL, NULL, 0); for (i = 0; i < nthreads; i++) if (i != my_tid && T[i].used) { vc_join(T[my_tid].vc, T[i].vc); ch_note(T[i].ch); } }
void mc_mark(void) { T[my_tid].blocked_count = 0; T[my_tid].long_waits = 0; }
int mc_long_waits(void) { return (int)T[my_tid].long_waits; }
int mc_in_call_blocked(void) { return (int)T[my_tid].blocked_count; }
long mc_barrier_count(void) { return T[my_tid].barriers; }
unsigned long mc_virtual_ms(void) { return vclock_ms; }
int mc_env_choice(int n, const char *what) { return env_choice(n, COST_DEVIATION, what); }

/* ------------------------------------------------------------------ choices */
static int used_budget[4];
static int choose(int n, const uint8_t *cost, uint64_t fp)
{
    int c = 0;
    if (n <= 1) return 0;
    if (n > MAXALT) mc_engine_error("choice point with %d alternatives", n);
    if (choice_pos >= MAXCHOICE) mc_violation("SCHED", "livelock/horizon", "execution produced more than %d scheduling choice points (livelock or unbounded loop)", MAXCHOICE);
    if (choice_pos < ctl->prefix_len) {
        c = ctl->prefix[choice_pos];
        if (ctl->prefix_n[choice_pos] != n || c >= n)
            mc_engine_error("replay divergence at choice %d: recorded %d alternatives, now %d (choice %d)", choice_pos, ctl->prefix_n[choice_pos], n, c);
    }
    ctl->trace[choice_pos].n = (uint8_t)n; ctl->trace[choice_pos].chosen = (uint8_t)c; ctl->trace[choice_pos].fp = fp;
    memcpy(ctl->trace[choice_pos].cost, cost, n);
    choice_pos++; ctl->ntrace = choice_pos;
    used_budget[cost[c] & 3]++;
    return c;
}

int env_choice(int n, int costkind, const char *what)
{
    uint8_t cost[MAXALT]; int i, c;
    if (!mc_active) return 0;
    cost[0] = COST_FREE; for (i = 1; i < n && i < MAXALT; i++) cost[i] = (uint8_t)costkind;
    c = choose(n, cost, model_fingerprint() ^ 0x9e3779b9u);
    ch_note(0x1000 + (uint64_t)c);
    if (c && ctl->verbose) mc_log("T%d env deviation %d at %s", cur, c, what);
    return c;
}

extern uint32_t ksim_fingerprint(void) __attribute__((weak));
uint64_t model_fingerprint(void)
{
    uint64_t h = 1469598103934665603ull; int i;
#define MIX(x) do { h = ch_mix(h, (uint64_t)(x)); } while (0)
    for (i = 0; i < nthreads; i++) { MIX(T[i].finished); MIX(T[i].pend_kind); MIX((uintptr_t)T[i].pend_obj); MIX(T[i].pend_arg); MIX(T[i].nops); MIX(T[i].ch); MIX(T[i].spin_parked); MIX(T[i].woken); MIX(T[i].joined + 2 * T[i].detached); MIX(T[i].sb_n); }
    for (i = 0; i < 8; i++) MIX(observes[i]);
    MIX(pthread_model_fp());
    MIX(ch_objects_acc);
    if (ksim_fingerprint) MIX(ksim_fingerprint());
    MIX(vclock_ms);
    MIX(cur);
    return h;
}

/* ------------------------------------------------------------------ scheduling */
static int spin_blocked(Thread *t)
{
    if (!t->spin_parked) return 0;
    if (addr_write_epoch(t->spin_addr) != t->spin_epoch) { t->spin_parked = 0; t->spin_repeat = 0; return 0; }
    return 1;
}

static int thread_enabled(Thread *t)
{
    if (!t->used || t->finished || !t->started) return 0;
    return op_enabled(t);
}

/* pick the next thread to run; self = calling thread (still the baton holder).  Returns the chosen thread. */
static int poll_timer_mode;
static int pick_next(int self, int self_may_continue)
{
    for (;;) {
        int en[MAXT], nen = 0, i, order[MAXALT], n = 0, cur_enabled = 0, c, spinners = 0, unfinished = 0;
        int spur[MAXT], nspur = 0;
        uint8_t cost[MAXALT];
        for (i = 0; i < nthreads; i++) {
            if (T[i].used && !T[i].finished) unfinished++;
            if (!thread_enabled(&T[i])) { if (T[i].used && !T[i].finished && T[i].started && i != self) T[i].blocked_count += 0; continue; }
            if (spin_blocked(&T[i])) { spinners++; continue; }
            en[nen++] = i;
        }
        if (nen == 0 && spinners) {      /* only spinning threads can run: let them retry; a bounded number of fruitless retries = livelock */
            for (i = 0; i < nthreads; i++) if (thread_enabled(&T[i]) && T[i].spin_parked) {
                if (++T[i].spin_repeat > 3) {
                    char b[64];
                    mc_violation("SCHED", "livelock/spin", "livelock: thread T%d spins on %s and no other thread can make progress", i, addr_name((void *)T[i].spin_addr, b, sizeof b));
                }
                en[nen++] = i;
            }
        }
        if (nen == 0) {     /* nothing can run: virtual time passes - polls with a time-out fire (each such thread is an alternative) */
            for (i = 0; i < nthreads; i++) if (T[i].used && !T[i].finished && T[i].pend_kind == OP_POLL && T[i].poll_has_timeout && !T[i].poll_fired) en[nen++] = i;
            if (nen) { int k; for (k = 0; k < nen; k++) T[en[k]].poll_fired = 0; }
            poll_timer_mode = nen > 0;
        } else poll_timer_mode = 0;
        if (nen == 0) {
            if (unfinished == 0) return -1;
            mc_violation("SCHED", "deadlock", "deadlock: no thread is enabled but %d thread(s) have not finished", unfinished);
        }
        /* spurious wake-ups of condition waiters are alternatives with their own budget */
        for (i = 0; i < nthreads; i++) if (T[i].used && !T[i].finished && T[i].pend_kind == OP_COND_BLOCKED && !T[i].woken) spur[nspur++] = i;
        if (self >= 0 && self_may_continue) for (i = 0; i < nen; i++) if (en[i] == self) cur_enabled = 1;
        if (cur_enabled && T[self].pend_kind == OP_YIELD && nen > 1) {
            /* sched_yield: another thread is the default choice, switching is free */
            /* fair scheduling: a thread that yields says it cannot make progress; it runs again only after another thread took a step */
            for (i = 0; i < nen; i++) if (en[i] != self) { order[n] = en[i]; cost[n] = COST_FREE; n++; }
        } else {
            if (cur_enabled) { order[n] = self; cost[n] = COST_FREE; n++; }
            for (i = 0; i < nen; i++) if (!(cur_enabled && en[i] == self)) {
                if (ctl->lean && cur_enabled && used_budget[COST_PREEMPT] >= ctl->bound_p) continue;
                order[n] = en[i]; cost[n] = cur_enabled ? COST_PREEMPT : COST_FREE; n++;
            }
        }
        for (i = 0; i < nspur && n < MAXALT; i++) { if (ctl->lean && used_budget[COST_SPURIOUS] >= ctl->bound_s) break; order[n] = 100 + spur[i]; cost[n] = COST_SPURIOUS; n++; }
        c = choose(n, cost, model_fingerprint());
        if (order[c] >= 100) {           /* spurious wake-up: the waiter now contends for its mutex; choose again */
            Thread *w = &T[order[c] - 100];
            w->woken = 1;
            if (ctl->verbose) mc_log("spurious wake-up of T%d", order[c] - 100);
            continue;
        }
        if (poll_timer_mode) T[order[c]].poll_fired = 1;
        for (i = 0; i < nthreads; i++) if (i != order[c] && T[i].used && !T[i].finished && T[i].started && (!thread_enabled(&T[i]) || spin_blocked(&T[i]))) T[i].blocked_count++;
        return order[c];
    }
}

static void wait_for_baton(int self)
{
    while (!T[self].go) futex_wait(&T[self].go, 0);
    T[self].go = 0;
}

static void hand_over(int self, int next)
{
    if (next == self) return;
    cur = next;
    __sync_synchronize();
    T[next].go = 1;
    futex_wake(&T[next].go);
    if (self >= 0) wait_for_baton(self);
}

static const char *OPN[] = {"none", "start", "step", "atomic", "yield", "mutex_lock", "mutex_trylock", "mutex_unlock", "mutex_init", "mutex_destroy",
    "cond_wait", "cond_blocked", "cond_signal", "cond_broadcast", "cond_misc", "rdlock", "wrlock", "tryrdlock", "trywrlock", "rwunlock", "rwmisc",
    "create", "join", "waitall", "exit", "key", "sem_wait", "sem_post", "sem_misc", "ipc", "sleep", "sock", "poll", "env"};
const char *op_name(int k) { return k >= 0 && k < (int)(sizeof OPN / sizeof OPN[0]) ? OPN[k] : "?"; }

/* Called by the running thread before each visible operation.  Publishes the pending op, lets the scheduler pick,
 * returns when this thread is chosen (its op is then enabled and is executed by the caller). */
void sched_point(int kind, void *obj, long arg)
{
    int self = my_tid, next;
    Thread *t = &T[self];
    if (!mc_active) return;
    if (self != cur) mc_engine_error("thread T%d ran without the baton (current T%d)", self, cur);
    if (t->pst_n) tso_capture(t);
    if (++ctl->steps > ctl->horizon)
        mc_violation("SCHED", "livelock/horizon", "execution exceeded the horizon of %d visible steps (livelock or unbounded loop)", ctl->horizon);
    t->pend_kind = kind; t->pend_obj = obj; t->pend_arg = arg; t->nops++;
    t->ch = ch_mix(t->ch, (uint64_t)kind);
    if (!op_enabled(t)) { t->blocked_count++; if (kind == OP_RDLOCK || kind == OP_WRLOCK) t->long_waits++; }
    next = pick_next(self, 1);
    if (next < 0) mc_engine_error("no thread to run at a scheduling point");
    if (ctl->verbose) mc_log("T%d %s %p%s", next, op_name(T[next].pend_kind), T[next].pend_obj, next != self ? "  (switch)" : "");
    hand_over(self, next);
    vc_tick(self);
    /* everything except a plain load / store drains the store buffer on x86 (atomic operations are locked instructions or mfence, the rest enters the kernel or a lock) */
    if ((t->sb_n || t->pst_n) && !(kind == OP_ATOMIC && (arg == 0 || arg == 1 || arg == 6 || arg == 7))) tso_flush(t);
}

/* the running thread has just become non-enabled by the op it executed (e.g. entered a condition wait):
 * pick someone else; returns when it is chosen again */
void sched_block_current(void)
{
    int self = my_tid, next;
    next = pick_next(self, 0);
    if (next < 0) mc_engine_error("no thread to run");
    if (ctl->verbose) mc_log("T%d %s %p (after T%d blocked)", next, op_name(T[next].pend_kind), T[next].pend_obj, self);
    hand_over(self, next);
    vc_tick(self);
}

void thread_finish_current(void)
{
    int self = my_tid, next;
    if (T[self].sb_n || T[self].pst_n) tso_flush(&T[self]);
    T[self].finished = 1; T[self].pend_kind = OP_NONE;
    vc_tick(self);
    next = pick_next(-1, 0);
    if (next < 0) mc_engine_error("last thread finished outside mc_end");
    if (ctl->verbose) mc_log("T%d finished -> T%d %s", self, next, op_name(T[next].pend_kind));
    cur = next;
    __sync_synchronize();
    T[next].go = 1;
    futex_wake(&T[next].go);
}

/* ------------------------------------------------------------------ threads */
static void *main_stack_lo, *main_stack_hi;
static void set_stack_bounds(Thread *t)
{
    pthread_attr_t a; void *lo; size_t sz;
    if (t == &T[0] && main_stack_hi) { t->stack_lo = main_stack_lo; t->stack_hi = main_stack_hi; return; }
    if (pthread_getattr_np(pthread_self(), &a) == 0) {
        pthread_attr_getstack(&a, &lo, &sz);
        t->stack_lo = lo; t->stack_hi = (char *)lo + sz;
        if (t == &T[0]) { main_stack_lo = t->stack_lo; main_stack_hi = t->stack_hi; }
        pthread_attr_destroy(&a);
    }
}

static void *trampoline(void *p)
{
    Thread *t = p; int self = (int)(t - T);
    my_tid = self;
    set_stack_bounds(t);
    t->pend_kind = OP_START; t->pend_obj = NULL;
    __sync_synchronize();
    t->started = 1;                      /* creator spins (for real) on this */
    futex_wake((volatile int *)&t->started);
    wait_for_baton(self);
    vc_tick(self);
    t->retval = t->fn(t->arg);
    run_key_destructors(self);
    thread_finish_current();
    return t->retval;
}

int __real_pthread_create(pthread_t *, const pthread_attr_t *, void *(*)(void *), void *);
int __real_pthread_join(pthread_t, void **);

static __thread int last_created;
int mcrt_create_thread(pthread_t *out, const pthread_attr_t *attr, void *(*fn)(void *), void *arg)
{
    int id, rc, ds = PTHREAD_CREATE_JOINABLE;
    Thread *t;
    sched_point(OP_CREATE, NULL, 0);
    id = nthreads;                       /* taken after the scheduling point: another thread may have created one meanwhile */
    if (id >= MAXT) mc_engine_error("too many threads");
    last_created = id;
    t = &T[id]; memset(t, 0, sizeof *t);
    t->used = 1; t->fn = fn; t->arg = arg;
    if (attr) pthread_attr_getdetachstate(attr, &ds);
    t->detached = ds == PTHREAD_CREATE_DETACHED;
    vc_copy(t->vc, T[my_tid].vc);        /* creation happens-before the new thread's start */
    t->ch = ch_mix(T[my_tid].ch, 0x7700 + (uint64_t)id);
    t->vc[id] = 1;
    nthreads = id + 1;
    rc = __real_pthread_create(&t->real, attr, trampoline, t);
    if (rc != 0) mc_engine_error("real pthread_create failed: %d", rc);
    while (!t->started) futex_wait((volatile int *)&t->started, 0);
    if (out) *out = t->real;
    vc_tick(my_tid);
    return 0;
}

int mcrt_find_thread(pthread_t th)
{
    int i, stale = -1;
    /* glibc reuses the pthread_t of a joined thread for a later one: the ID names the newest thread that carries it and whose lifetime has not ended */
    for (i = nthreads - 1; i >= 0; i--) if (T[i].used && pthread_equal(T[i].real, th)) { if (!T[i].joined) return i; if (stale < 0) stale = i; }
    return stale;
}

void mcrt_join_thread(int id, void **ret)
{
    if (id < 0 || id >= nthreads) mc_violation("SCHED", "posix/join-unknown", "pthread_join of an unknown thread");
    if (T[id].detached) mc_violation("SCHED", "posix/join-detached", "pthread_join of a detached thread T%d (undefined behaviour)", id);
    if (T[id].joined) mc_violation("SCHED", "posix/join-twice", "thread T%d joined twice (undefined behaviour)", id);
    sched_point(OP_JOIN, &T[id], id);
    if (!T[id].finished) mc_engine_error("join scheduled although the target is running");
    T[id].joined = 1;
    vc_join(T[my_tid].vc, T[id].vc);
    ch_note(T[id].ch);
    __real_pthread_join(T[id].real, ret);
}

int mc_thread_create(void *(*fn)(void *), void *arg) { pthread_t th; mcrt_create_thread(&th, NULL, fn, arg); return last_created; }
void mc_thread_join(int tid) { mcrt_join_thread(tid, NULL); }

/* ------------------------------------------------------------------ one execution (child process) */
static const McHarness *the_harness; static int h_argc; static char **h_argv;

static void run_execution(void)
{
    memset(&T[0], 0, sizeof T[0]);
    T[0].used = 1; T[0].started = 1; T[0].vc[0] = 1; T[0].real = pthread_self();
    set_stack_bounds(&T[0]);
    nthreads = 1; cur = 0; my_tid = 0; choice_pos = 0;
    mc_active = 1;
    the_harness->body(h_argc, h_argv);
    /* wait for every other thread (detached ones included) */
    sched_point(OP_WAITALL, NULL, 0);
    ctl->finished = 1;
    _exit(0);
}

/* ------------------------------------------------------------------ explorer (parent) */
typedef struct { long execs, steps, viol_execs; int max_depth; long bound_skips; int capped; } XStat;
static XStat xs;
static McBounds B;
static double t_start;
static struct { char sig[200]; long n; } vsig[64]; static int nvsig;
static char **outcomes; static int noutcomes, outcomes_cap;
static uint64_t *fpset; static long fpcap, fpcount;
static uint64_t *visited; static long vcap, vcount; static int prune = 1; static long pruned_points;
static unsigned g_nontrivial_execs[32], g_exists; static long g_any_nontrivial;
static const char *job_desc;
static char cmdline[1024];

static double now_s(void) { struct timespec ts; clock_gettime(CLOCK_MONOTONIC, &ts); return ts.tv_sec + ts.tv_nsec * 1e-9; }

static void fp_add(uint64_t fp)
{
    long h;
    if (!fpset) {      /* explorer-only data: kept out of the forked executions (MADV_DONTFORK), otherwise every fork pays for its page tables */
        fpcap = 1 << 22; fpset = mmap(NULL, fpcap * sizeof *fpset, PROT_READ | PROT_WRITE, MAP_PRIVATE | MAP_ANONYMOUS, -1, 0);
        if (fpset == MAP_FAILED) { perror("fpset"); exit(2); }
        madvise(fpset, fpcap * sizeof *fpset, MADV_DONTFORK);
    }
    if (fpcount * 2 > fpcap) return;
    if (fp == 0) fp = 1;
    h = fp & (fpcap - 1);
    while (fpset[h]) { if (fpset[h] == fp) return; h = (h + 1) & (fpcap - 1); }
    fpset[h] = fp; fpcount++;
}

/* visited (state, remaining budgets) pairs: alternatives of an already expanded state are not expanded again */
static int visited_test_and_set(uint64_t fp, int p, int s_, int d)
{
    uint64_t k = ch_mix(fp, (uint64_t)(p * 10000 + s_ * 100 + d) + 0x5bd1e995u); long h;
    if (!visited) {
        vcap = 1 << 24; visited = mmap(NULL, vcap * sizeof *visited, PROT_READ | PROT_WRITE, MAP_PRIVATE | MAP_ANONYMOUS, -1, 0);
        if (visited == MAP_FAILED) { perror("visited"); exit(2); }
        madvise(visited, vcap * sizeof *visited, MADV_DONTFORK);
    }
    if (k == 0) k = 1;
    h = (long)(k & (uint64_t)(vcap - 1));
    while (visited[h]) { if (visited[h] == k) return 1; h = (h + 1) & (vcap - 1); }
    if (vcount * 2 > vcap) { static int told; if (!told) { told = 1; fprintf(stderr, "note: visited-state table full (%ld states): no pruning from here on\n", vcount); } return 0; }      /* not an error: the exploration goes on unpruned until its deadline and is then reported as not exhaustive */
    visited[h] = k; vcount++;
    return 0;
}

static void outcome_add(const char *o)
{
    int i;
    for (i = 0; i < noutcomes; i++) if (!strcmp(outcomes[i], o)) return;
    if (noutcomes == outcomes_cap) { outcomes_cap = outcomes_cap ? outcomes_cap * 2 : 64; outcomes = realloc(outcomes, outcomes_cap * sizeof *outcomes); }
    outcomes[noutcomes++] = strdup(o);
}

static int run_child(const uint8_t *prefix, const uint8_t *prefix_n, int len, int verbose)
{
    pid_t pid; int st;
    ctl->prefix_len = len; memcpy(ctl->prefix, prefix, len); memcpy(ctl->prefix_n, prefix_n, len);
    ctl->ntrace = 0; ctl->overflow = 0; ctl->steps = 0; ctl->violated = 0; ctl->engine_error = 0; ctl->finished = 0;
    ctl->outcome[0] = 0; ctl->nontrivial_mask = 0; ctl->exists_mask = 0; ctl->log_len = 0; ctl->verbose = verbose; ctl->horizon = B.horizon; ctl->tso = B.tso; ctl->spin_patience = B.spin_patience; ctl->lean = B.spin_patience > 1; ctl->bound_p = B.preemptions; ctl->bound_s = B.spurious; ctl->bound_d = B.deviations;
    ctl->sig[0] = ctl->desc[0] = ctl->prop[0] = 0;
    { static long seq; ctl->exec_id = (long)getpid() * 1000000L + (++seq); }
    pid = fork();
    if (pid < 0) { perror("fork"); exit(2); }
    if (pid == 0) { alarm(600); run_execution(); _exit(0); }      /* wall-clock watchdog: a stuck execution is an engine error, never a hang of the check */
    while (waitpid(pid, &st, 0) < 0 && errno == EINTR) ;
    if (WIFSIGNALED(st) && WTERMSIG(st) == SIGALRM) { fprintf(stderr, "ENGINE: one execution did not finish within 600 s of wall-clock time (engine hang), command: %s\n", cmdline); exit(2); }
    if (WIFSIGNALED(st)) {
        ctl->violated = 1; snprintf(ctl->prop, sizeof ctl->prop, "SCHED");
        snprintf(ctl->sig, sizeof ctl->sig, "crash/signal-%d", WTERMSIG(st));
        snprintf(ctl->desc, sizeof ctl->desc, "execution died with signal %d", WTERMSIG(st));
        return 77;
    }
    return WEXITSTATUS(st);
}

static void choices_text(const uint8_t *p, int n, char *buf, size_t sz)
{
    size_t o = 0; int i; buf[0] = 0;
    for (i = 0; i < n && o + 4 < sz; i++) o += snprintf(buf + o, sz - o, "%s%d", i ? "." : "", p[i]);
    if (!n) snprintf(buf, sz, "-");
}

static void report_violation(const uint8_t *pre, const uint8_t *pre_n, int len)
{
    char sig[200], prop[16], desc[3000], ch[2 * MAXPREFIX + 8], rp[3 * MAXPREFIX]; int i, rc;
    uint8_t full[MAXPREFIX], fulln[MAXPREFIX]; int fl = ctl->ntrace;
    snprintf(sig, sizeof sig, "%s", ctl->sig); snprintf(prop, sizeof prop, "%s", ctl->prop); snprintf(desc, sizeof desc, "%s", ctl->desc);
    xs.viol_execs++;
    for (i = 0; i < nvsig; i++) if (!strcmp(vsig[i].sig, sig)) { vsig[i].n++; return; }
    if (fl > MAXPREFIX) fl = MAXPREFIX;
    for (i = 0; i < fl; i++) { full[i] = ctl->trace[i].chosen; fulln[i] = ctl->trace[i].n; }
    /* replay twice: the same schedule must fail the same way, otherwise the engine is nondeterministic */
    for (i = 0; i < 2; i++) {
        rc = run_child(full, fulln, fl, 0);
        if (rc != 77 || strcmp(ctl->sig, sig)) {
            fprintf(stderr, "ENGINE: violation '%s' did not reproduce on replay (rc %d sig '%s' msg '%s')\n", sig, rc, ctl->sig, ctl->engine_msg);
            exit(2);
        }
    }
    run_child(full, fulln, fl, 1);       /* once more, verbosely, for the schedule listing */
    if (nvsig < 64) { snprintf(vsig[nvsig].sig, sizeof vsig[nvsig].sig, "%s", sig); vsig[nvsig].n = 1; nvsig++; }
    choices_text(full, fl, ch, sizeof ch);
    snprintf(rp, sizeof rp, "%s --replay %s", cmdline, ch);
    {
        char log[6000]; long ll = ctl->log_len; const char *lp = ctl->log;
        if (ll > 5000) { lp += ll - 5000; ll = 5000; }
        memcpy(log, lp, ll); log[ll] = 0;
        hout_viol(prop, sig, rp, "%s\n%s\n schedule (visible steps, last part):\n%s", job_desc, desc, log);
    }
    (void)pre; (void)pre_n; (void)len;
}

static int over_budget(void)
{
    if (B.max_execs && xs.execs >= B.max_execs) { xs.capped = 1; return 1; }
    if (B.deadline_s > 0 && now_s() - t_start > B.deadline_s) { xs.capped = 1; return 1; }
    return 0;
}

static void explore(uint8_t *pre, uint8_t *pre_n, int len, int used_p, int used_s, int used_d)
{
    int rc, i, n; Choice *tr;
    if (over_budget()) return;
    rc = run_child(pre, pre_n, len, 0);
    xs.execs++; xs.steps += ctl->steps;
    if (ctl->ntrace > xs.max_depth) xs.max_depth = ctl->ntrace;
    if (rc == 3 || ctl->engine_error) { fprintf(stderr, "ENGINE: %s\n", ctl->engine_msg); exit(2); }
    if (ctl->overflow) { fprintf(stderr, "ENGINE: more than %d choice points in one execution\n", MAXCHOICE); exit(2); }
    n = ctl->ntrace;
    tr = malloc(sizeof(Choice) * (n ? n : 1)); memcpy(tr, ctl->trace, sizeof(Choice) * n);
    for (i = 0; i < n; i++) fp_add(tr[i].fp);
    if (rc == 77) report_violation(pre, pre_n, len);
    else if (rc != 0) { fprintf(stderr, "ENGINE: execution exited with %d\n", rc); exit(2); }
    else {
        int k;
        if (ctl->outcome[0]) outcome_add(ctl->outcome);
        if (ctl->nontrivial_mask) g_any_nontrivial++;
        for (k = 0; k < 32; k++) if (ctl->nontrivial_mask & (1u << k)) g_nontrivial_execs[k]++;
        g_exists |= ctl->exists_mask;
    }
    if (nvsig >= 8) { free(tr); return; }
    /* budget used by the choices this execution made after the prefix (all defaults = 0) */
    {
        uint8_t *np = malloc(n + 1), *nn = malloc(n + 1); int p = used_p, s = used_s, d = used_d;
        for (i = 0; i < n; i++) { np[i] = tr[i].chosen; nn[i] = tr[i].n; }
        for (i = len; i < n && i < MAXPREFIX - 1; i++) {
            int alt;
            if (prune && visited_test_and_set(tr[i].fp, B.preemptions - p, B.spurious - s, B.deviations - d)) { pruned_points++; break; }
            for (alt = 1; alt < tr[i].n; alt++) {
                int c = tr[i].cost[alt], p2 = p, s2 = s, d2 = d;
                if (c == COST_PREEMPT) p2++; else if (c == COST_SPURIOUS) s2++; else if (c == COST_DEVIATION) d2++;
                if (p2 > B.preemptions || s2 > B.spurious || d2 > B.deviations) { xs.bound_skips++; continue; }
                np[i] = (uint8_t)alt;
                explore(np, nn, i + 1, p2, s2, d2);
                np[i] = tr[i].chosen;
                if (xs.capped || nvsig >= 8) break;
            }
            if (xs.capped || nvsig >= 8) break;
        }
        free(np); free(nn);
    }
    free(tr);
}

static int parse_choices(const char *s, uint8_t *out)
{
    int n = 0;
    if (!strcmp(s, "-")) return 0;
    while (*s && n < MAXPREFIX) { out[n++] = (uint8_t)strtol(s, (char **)&s, 10); if (*s == '.') s++; }
    return n;
}

extern void mcrt_zygote_init(void);

int mc_main(int argc, char **argv, const McHarness *hs, int nh)
{
    int i, hi = -1, first_harg; const char *replay = NULL; size_t o = 0;
    uint8_t pre[MAXPREFIX], pre_n[MAXPREFIX];
    B.preemptions = 2; B.spurious = 0; B.deviations = 0; B.horizon = 3000; B.max_execs = 0; B.deadline_s = 0; B.spin_patience = 1;
    if (argc < 2) { fprintf(stderr, "usage: %s <harness> [-p N] [-s N] [-d N] [-H horizon] [-X maxexecs] [-D seconds] [--replay choices] [-- harness args]\n", argv[0]); for (i = 0; i < nh; i++) fprintf(stderr, "  %s  %s\n", hs[i].name, hs[i].help ? hs[i].help : ""); return 2; }
    for (i = 0; i < nh; i++) if (!strcmp(hs[i].name, argv[1])) hi = i;
    if (hi < 0) { fprintf(stderr, "unknown harness %s\n", argv[1]); return 2; }
    /* "--replay <choices>" is accepted anywhere on the line (replay records append it after the harness arguments) */
    for (i = 2; i + 1 < argc; i++) if (!strcmp(argv[i], "--replay")) { int k; replay = argv[i + 1]; for (k = i; k + 2 < argc; k++) argv[k] = argv[k + 2]; argc -= 2; break; }
    first_harg = argc;
    for (i = 2; i < argc; i++) {
        if (!strcmp(argv[i], "-p")) B.preemptions = atoi(argv[++i]);
        else if (!strcmp(argv[i], "-s")) B.spurious = atoi(argv[++i]);
        else if (!strcmp(argv[i], "-d")) B.deviations = atoi(argv[++i]);
        else if (!strcmp(argv[i], "-H")) B.horizon = atoi(argv[++i]);
        else if (!strcmp(argv[i], "-X")) B.max_execs = atol(argv[++i]);
        else if (!strcmp(argv[i], "-D")) B.deadline_s = atof(argv[++i]);
        else if (!strcmp(argv[i], "--replay")) replay = argv[++i];
        else if (!strcmp(argv[i], "-N")) prune = 0;
        else if (!strcmp(argv[i], "-B")) B.tso = 1;
        else if (!strcmp(argv[i], "-S")) B.spin_patience = atol(argv[++i]);
        else if (!strcmp(argv[i], "--")) { first_harg = i + 1; break; }
        else { fprintf(stderr, "unknown option %s\n", argv[i]); return 2; }
    }
    the_harness = &hs[hi]; h_argc = argc - first_harg; h_argv = argv + first_harg;
    {   /* command line without --replay, for replay records */
        const char *b = strrchr(argv[0], '/'); b = b ? b + 1 : argv[0];
        o += snprintf(cmdline + o, sizeof cmdline - o, "%s", b);
        for (i = 1; i < argc && o + 40 < sizeof cmdline; i++) { if (!strcmp(argv[i], "--replay")) { i++; continue; } o += snprintf(cmdline + o, sizeof cmdline - o, " %s", argv[i]); }
    }
    job_desc = cmdline;
    hout_open();
    ctl = mmap(NULL, sizeof(Ctl), PROT_READ | PROT_WRITE, MAP_SHARED | MAP_ANONYMOUS, -1, 0);
    if (ctl == MAP_FAILED) { perror("mmap ctl"); return 2; }
    memset(ctl, 0, sizeof *ctl);
    mem_init(); mon_init();
    T[0].used = 1; T[0].started = 1; T[0].vc[0] = 1; nthreads = 1; my_tid = 0;
    set_stack_bounds(&T[0]);
    mcrt_zygote_init();          /* p_libsys_init() under the model, single threaded, before any fork */
    {   /* all threads of one execution on one CPU: baton hand-offs become same-core context switches (much cheaper than cross-core wake-ups) */
        cpu_set_t set; int ncpu = (int)sysconf(_SC_NPROCESSORS_ONLN), cpu;
        const char *e = getenv("VERIF_CPU");
        cpu = e ? atoi(e) : (int)(getpid() % (ncpu > 0 ? ncpu : 1));
        CPU_ZERO(&set); CPU_SET(cpu, &set);
        sched_setaffinity(0, sizeof set, &set);
    }
    t_start = now_s();
    if (replay) {
        int n = parse_choices(replay, pre), rc;
        /* replay mode does not know the recorded alternative counts: disable the divergence check by learning them on the fly */
        for (i = 0; i < n; i++) pre_n[i] = 0;
        {   /* iterative: run with growing verified prefix */
            int k;
            for (k = 0; k <= n; k++) {
                ctl->prefix_len = 0;
                rc = run_child(pre, pre_n, k, k == n);
                if (k < n) { if (ctl->ntrace <= k) { printf("replay: execution has only %d choice points, choice list has %d\n", ctl->ntrace, n); return 2; } pre_n[k] = ctl->trace[k].n; }
            }
        }
        printf("%s", ctl->log);
        if (rc == 77) { printf("VIOLATION reproduced: property %s signature %s\n%s\n", ctl->prop, ctl->sig, ctl->desc); return 1; }
        printf("execution finished without violation (rc %d) outcome: %s\n", rc, ctl->outcome);
        return rc == 0 ? 0 : 2;
    }
    explore(pre, pre_n, 0, 0, 0, 0);
    hout_stat("executions", xs.execs); hout_stat("visible_steps", xs.steps); hout_stat("violating_executions", xs.viol_execs);
    hout_stat("max_choice_points", xs.max_depth); hout_stat("distinct_fingerprints", fpcount); hout_stat("distinct_outcomes", noutcomes);
    hout_stat("nontrivial_executions", g_any_nontrivial); hout_stat("states_pruned_as_already_expanded", pruned_points); hout_stat("expanded_states", vcount); hout_stat("alternatives_cut_by_bound", xs.bound_skips);
    for (i = 0; i < 32; i++) if (g_nontrivial_execs[i]) { char k[48]; snprintf(k, sizeof k, "nontrivial_slot%d_executions", i); hout_stat(k, g_nontrivial_execs[i]); }
    fprintf(hout_f, "{\"t\":\"exists\",\"job\":"); hout_esc(hout_f, cmdline); fprintf(hout_f, ",\"mask\":%u}\n", g_exists);
    if (xs.capped) { fprintf(hout_f, "{\"t\":\"incomplete\",\"s\":"); { char b[300]; snprintf(b, sizeof b, "%s stopped by cap after %ld executions", cmdline, xs.execs); hout_esc(hout_f, b); } fprintf(hout_f, "}\n"); }
    { fprintf(hout_f, "{\"t\":\"outcomes\",\"job\":"); hout_esc(hout_f, cmdline); fprintf(hout_f, ",\"list\":["); for (i = 0; i < noutcomes && i < 500; i++) { if (i) fputc(',', hout_f); hout_esc(hout_f, outcomes[i]); } fprintf(hout_f, "]}\n"); }
    for (i = 0; i < noutcomes && i < 3; i++) hout_sample("%s: outcome \"%s\"", cmdline, outcomes[i]);
    hout_sample("%s: %ld executions, %ld visible steps, bounds p<=%d s<=%d d<=%d", cmdline, xs.execs, xs.steps, B.preemptions, B.spurious, B.deviations);
    fflush(hout_f);
    return nvsig ? 1 : 0;
}
