/* Free-running implementation of the mc.h harness API over real glibc pthreads (no scheduler, no model).
 * Used for the conformance pass of the POSIX threads model: the same harness bodies are linked with this file instead of
 * the mcrt runtime, built with the real ThreadSanitizer, and run many times; every outcome string observed must be a member
 * of the outcome set the exhaustive exploration produced (reality is a subset of the model), and ThreadSanitizer's own
 * reports are collected as a non-deciding cross-check.
 *
 * usage: <exe> <harness> [-R runs] [ignored explorer options] [-- harness args]     prints one line per run: OUTCOME <text> | FAIL <sig> <text>
 */
#define _GNU_SOURCE
#include "mc.h"
#include <pthread.h>
#include <stdarg.h>
#include <stdio.h>
#include <stdlib.h>
#include <string.h>
#include <sys/wait.h>
#include <unistd.h>

extern void p_libsys_init(void);
void mc_harness_zygote(void) __attribute__((weak));

static pthread_t th[16]; static int nth = 1;
static __thread int self_id;
static char outcome[256];

void mc_step(void) { sched_yield(); }
void mc_fail(const char *prop, const char *sig, const char *fmt, ...)
{
    char b[1200]; va_list ap; va_start(ap, fmt); vsnprintf(b, sizeof b, fmt, ap); va_end(ap);
    printf("FAIL %s %s %s\n", prop, sig, b); fflush(stdout); _exit(77);
}
void mc_outcome(const char *fmt, ...) { va_list ap; va_start(ap, fmt); vsnprintf(outcome, sizeof outcome, fmt, ap); va_end(ap); }
void mc_nontrivial(int slot) { (void)slot; }
void mc_exists(int slot) { (void)slot; }
void mc_name(const void *a, size_t l, const char *n) { (void)a; (void)l; (void)n; }
void mc_observe(int s, long v) { (void)s; (void)v; }
struct start { void *(*fn)(void *); void *arg; int id; };
static void *tramp(void *p) { struct start s = *(struct start *)p; free(p); self_id = s.id; return s.fn(s.arg); }
int mc_thread_create(void *(*fn)(void *), void *arg) { struct start *s = malloc(sizeof *s); int id = __atomic_fetch_add(&nth, 1, __ATOMIC_SEQ_CST); s->fn = fn; s->arg = arg; s->id = id; if (pthread_create(&th[id], NULL, tramp, s)) { perror("pthread_create"); _exit(2); } return id; }
void mc_thread_join(int tid) { pthread_join(th[tid], NULL); }
int mc_self(void) { return self_id; }
int mc_is_free_running(void) { return 1; }
void mc_wait_all(void) { struct timespec ts = {0, 50000000}; nanosleep(&ts, NULL); }     /* detached threads: give them time (free-running mode has no global view) */
long mc_exec_id(void) { return (long)getpid(); }
int mc_mutex_owner(const void *m) { (void)m; return self_id; }             /* not observable on real glibc: the harness check becomes a no-op */
int mc_in_call_blocked(void) { return 0; }
int mc_long_waits(void) { return 0; }
void mc_mark(void) {}
long mc_barrier_count(void) { static long n; return ++n; }
long mc_blocks_outstanding(void) { return 0; }
int mc_block_state(const void *p) { (void)p; return -2; }
long mc_block_free_count(const void *p) { (void)p; return 1; }
long mc_keys_live(void) { return 0; }
unsigned long mc_virtual_ms(void) { return 0; }
int mc_env_choice(int n, const char *w) { (void)n; (void)w; return 0; }

int mc_main(int argc, char **argv, const McHarness *hs, int nh)
{
    int i, hi = -1, runs = 20, first = argc, r, bad = 0;
    if (argc < 2) return 2;
    for (i = 0; i < nh; i++) if (!strcmp(hs[i].name, argv[1])) hi = i;
    if (hi < 0) return 2;
    for (i = 2; i < argc; i++) { if (!strcmp(argv[i], "-R")) runs = atoi(argv[++i]); else if (!strcmp(argv[i], "--")) { first = i + 1; break; } else if (argv[i][0] == '-' && i + 1 < argc && strcmp(argv[i], "-N") && strcmp(argv[i], "-B")) i++; }
    for (r = 0; r < runs; r++) {
        pid_t pid; int st;
        fflush(stdout);
        pid = fork();
        if (pid == 0) {
            alarm(30);
            p_libsys_init(); if (mc_harness_zygote) mc_harness_zygote();
            hs[hi].body(argc - first, argv + first);
            printf("OUTCOME %s\n", outcome); fflush(stdout);
            _exit(0);
        }
        waitpid(pid, &st, 0);
        if (WIFSIGNALED(st)) { printf("FAIL - free/signal-%d the free-running execution died with a signal (SIGALRM = hang)\n", WTERMSIG(st)); bad++; }
        else if (WEXITSTATUS(st) == 66) { printf("TSAN a ThreadSanitizer report was printed in this run\n"); }
        else if (WEXITSTATUS(st) != 0) bad++;
    }
    return bad ? 1 : 0;
}
