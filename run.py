#!/usr/bin/env python3
"""entry point of every check:  python3 run.py <ID> [--tier quick|thorough] [--replay <file>]"""
import argparse, importlib, json, os, sys, time, traceback

VERIF = os.path.dirname(os.path.abspath(__file__))
sys.path.insert(0, os.path.join(VERIF, "engine"))
sys.path.insert(0, VERIF)

MODULES = {
    "C12": "checks.trees", "C13": "checks.trees", "C14": "checks.trees",
    "C15": "checks.hashlist", "C08": "checks.shmbuf", "C01": "checks.c01", "C04": "checks.c04", "C02": "checks.c02", "C03": "checks.c03", "C05": "checks.c05", "C11": "checks.hashes", "C17": "checks.addrs", "C16": "checks.ini", "C06": "checks.ipc", "C18": "checks.allocfail", "C19": "checks.eintr", "C20": "checks.resources", "C09": "checks.c09", "C10": "checks.c10", "C07": "checks.ipc",
}


def main():
    ap = argparse.ArgumentParser()
    ap.add_argument("prop")
    ap.add_argument("--tier", default=os.environ.get("VERIF_TIER", "quick"))
    ap.add_argument("--replay")
    a = ap.parse_args()
    if a.prop not in MODULES:
        print("no check registered for %s" % a.prop)
        return 2
    tier = a.tier if a.tier in ("quick", "thorough") else "quick"
    import common, build
    mod = importlib.import_module(MODULES[a.prop])
    try:
        if a.replay:
            return mod.replay(a.prop, a.replay)
        return mod.run(a.prop, tier)
    except (common.EngineError, build.BuildError) as e:
        print("ENGINE-ERROR (not a verdict) %s: %s" % (a.prop, e))
        return 2
    except Exception:
        traceback.print_exc()
        print("ENGINE-ERROR (not a verdict) %s: unexpected exception" % a.prop)
        return 2


if __name__ == "__main__":
    sys.exit(main())
