"""C08: shared-memory ring buffer.  (a) sequential BFS over the complete (read_pos, write_pos) graph (harness/shmbuf_bfs.c);
(b) concurrent producers/consumers under the controlled scheduler (added by checks/sched when available)."""
import json, os, subprocess, time
import build, common
from checks import mcsched

IPC_LD = ["-Wl,--wrap=shm_open,--wrap=sem_open"]


def exe():
    return build.build_exe("shmbuf_bfs", "asan", ["harness/shmbuf_bfs.c", "engine/ipcnames.c"], exclude=("pshmbuffer.c",), ldflags=IPC_LD)


def run(prop, tier):
    t0 = time.time()
    x = exe()
    acc = common.Acc()
    caps = [1, 2, 3, 4, 5, 6] if tier == "quick" else [1, 2, 3, 4, 5, 6, 7, 8, 9, 12]
    jobs = [(s, m) for s in caps for m in (0, 1, 2)]
    # capacities whose segment (16 bytes of positions + S + 1) ends exactly at, just before and just after a page boundary: a directed script through both handles
    jobs += [(s, m) for s in (4079, 4080, 4081, 8176) for m in (0, 1)]
    common.parallel(lambda j: common.run_harness(x, list(j), acc, "shmbuf_bfs S=%d mode=%d" % j, timeout=3000, crash_prop=prop), jobs)
    # (b) concurrent handles under the controlled scheduler: linearizability of write/read/used/clear
    scripts = [("w", "r"), ("ww", "r"), ("w", "w", "r"), ("wr", "rw"), ("w", "u", "r"), ("wc", "r"), ("Xw", "w"), ("X", "w", "r")] + ([("ww", "rr", "u"), ("wrw", "rwr"), ("w", "w", "w")] if tier == "thorough" else [])
    p = 2 if tier == "quick" else 3
    sjobs = [dict(src="harness/sched_ipc.c", ipc=True, args=["shmbuf", "-p", p if len(sc) < 3 else 2, "--"] + list(sc)) for sc in scripts]
    sacc = mcsched.run_jobs(prop, tier, sjobs)
    acc.viols += sacc.viols; acc.jobs += sacc.jobs; acc.samples += sacc.samples[:3]; acc.incomplete += sacc.incomplete; acc.engine_errors += sacc.engine_errors
    for k, v in sacc.stats.items():
        acc.add_stat("sched_" + k, v)
    s = acc.stats
    cov = dict(states=s.get("states", 0) + s.get("sched_distinct_fingerprints", 0), transitions=s.get("transitions", 0) + s.get("sched_visible_steps", 0),
               traces_validated_against_impl=s.get("canon_on_replay_checks", 0) + s.get("sched_executions", 0),
               concurrent_executions=s.get("sched_executions", 0),
               evaluations=s.get("transitions", 0) + s.get("sched_executions", 0), distinct_nontrivial=s.get("nontrivial", 0) + s.get("sched_nontrivial_executions", 0),
               rule="for each capacity S in %s and each size argument of the second handle (S, S+3, max(1,S-2)): BFS to closure over (read_pos, write_pos) "
                    "read from the segment header; from every state write(len) and read(len) for every len in 0..S+1 and clear, through either handle; after each: "
                    "return value, FIFO bytes (fresh sequence-numbered data), used/free through both handles, used+free == S, no IPC name left after owner free; "
                    "non-trivial = transitions whose copy wraps around the end of the ring. Concurrent part: 2-3 threads with own handles of one name (capacity 4) running scripts over "
                    "write(2)/read(3)/used/clear, all interleavings with <= %d preemptions at every IPC system call, results checked against every sequential order of a byte deque, "
                    "happens-before monitor on the aliased segment shadow" % (caps, p),
               exhaustive=True)
    assumptions = ["ring code never branches on data bytes, so (read_pos, write_pos) is a sufficient state; byte values are checked along every transition",
                   "the result of a zero-length read/write is not defined by the property (the code rejects it with -1): only 'state unchanged' is checked for len 0",
                   "real POSIX shared memory and named semaphores of this kernel (/dev/shm) are used, no model"]
    return common.finish(prop, tier, "model_checking", acc, cov, assumptions, t0)


def replay(prop, path):
    r = json.load(open(path))
    args = r["replay"].split()
    e = dict(os.environ); e.update(common.ASAN_ENV)
    return subprocess.call([exe()] + args[1:], env=e)
