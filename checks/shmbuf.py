"""C08: shared-memory ring buffer.  (a) sequential BFS over the complete (read_pos, write_pos) graph (harness/shmbuf_bfs.c);
(b) concurrent producers/consumers under the controlled scheduler (added by checks/sched when available)."""
import json, os, subprocess, time
import build, common

IPC_LD = ["-Wl,--wrap=shm_open,--wrap=sem_open"]


def exe():
    return build.build_exe("shmbuf_bfs", "asan", ["harness/shmbuf_bfs.c", "engine/ipcnames.c"], exclude=("pshmbuffer.c",), ldflags=IPC_LD)


def run(prop, tier):
    t0 = time.time()
    x = exe()
    acc = common.Acc()
    caps = [1, 2, 3, 4, 5, 6] if tier == "quick" else [1, 2, 3, 4, 5, 6, 7, 8, 9, 12]
    jobs = [(s, m) for s in caps for m in (0, 1, 2)]
    common.parallel(lambda j: common.run_harness(x, list(j), acc, "shmbuf_bfs S=%d mode=%d" % j, timeout=3000, crash_prop=prop), jobs)
    s = acc.stats
    cov = dict(states=s.get("states", 0), transitions=s.get("transitions", 0),
               traces_validated_against_impl=s.get("canon_on_replay_checks", 0),
               evaluations=s.get("transitions", 0), distinct_nontrivial=s.get("nontrivial", 0),
               rule="for each capacity S in %s and each size argument of the second handle (S, S+3, max(1,S-2)): BFS to closure over (read_pos, write_pos) "
                    "read from the segment header; from every state write(len) and read(len) for every len in 0..S+1 and clear, through either handle; after each: "
                    "return value, FIFO bytes (fresh sequence-numbered data), used/free through both handles, used+free == S, no IPC name left after owner free; "
                    "non-trivial = transitions whose copy wraps around the end of the ring" % caps,
               exhaustive=True)
    assumptions = ["ring code never branches on data bytes, so (read_pos, write_pos) is a sufficient state; byte values are checked along every transition",
                   "the result of a zero-length read/write is not defined by the property (the code rejects it with -1): only 'state unchanged' is checked for len 0",
                   "real POSIX shared memory and named semaphores of this kernel (/dev/shm) are used, no model"]
    return common.finish(prop, tier, "model_checking", acc, cov, assumptions, t0)


def replay(prop, path):
    r = json.load(open(path))
    args = r["replay"].split()
    e = dict(os.environ); e.update(common.ASAN_ENV)
    return subprocess.call([exe()] + args[1:], env=e)
