"""C05: threads - join/exit code/visibility, ref-counted handle, TLS destroy notifiers; all interleavings with thread start/exit"""
import time
import common
from checks import mcsched

SRC = "harness/sched_c05.c"


def run(prop, tier):
    t0 = time.time()
    p = 2 if tier == "quick" else 3
    jobs = []
    for code in ("r", "0", "7", "-3", "2147483647", "-2147483648", "256", "65536"):
        jobs.append(dict(src=SRC, args=["join", "-p", p, "--", code]))
    for code in ("r", "7"):          # p_uthread_create_full with explicit priority, stack size and name
        jobs.append(dict(src=SRC, args=["join", "-p", p, "--", code, "f"]))
    for jv in ("j4", "j-1"):         # a joinable argument that is non-zero without being TRUE
        jobs.append(dict(src=SRC, args=["join", "-p", p, "--", "7", jv]))
    scripts = [("j", "JU"), ("j", "RUJU"), ("j", "RJUU"), ("j", "UR"[:1]), ("d", "U"), ("d", "RUU"), ("j", "RUU")]
    if tier == "thorough":
        scripts += [("j", "RRUJUU"), ("d", "RRUUU"), ("j", "JRUU")]
    for (jd, sc) in scripts:
        for body in ("e", "s"):
            jobs.append(dict(src=SRC, args=["refs", "-p", p, "--", jd, sc, body]))
    jobs.append(dict(src=SRC, args=["tls", "-p", p, "--", 2]))
    jobs.append(dict(src=SRC, args=["tls", "-p", p, "--", 2, "b"]))
    jobs.append(dict(src=SRC, args=["tls", "-p", p, "--", 1, "c"]))       # key reference freed while a thread still holds a value
    if tier == "thorough":
        jobs.append(dict(src=SRC, args=["tls", "-p", 2, "--", 3]))
    jobs.append(dict(src=SRC, args=["foreign", "-p", p]))
    jobs.append(dict(src=SRC, args=["shutdown", "-p", p]))
    for a in ("sync", "sim"):       # the handshake and the reference counter sit on the selected atomic/spinlock model
        jobs.append(dict(src=SRC, atomic=a, args=["join", "-p", p, "--", "7"]))
        jobs.append(dict(src=SRC, atomic=a, args=["refs", "-p", p, "--", "d", "U", "s"]))
        jobs.append(dict(src=SRC, atomic=a, args=["refs", "-p", p, "--", "j", "RUJU", "e"]))
        jobs.append(dict(src=SRC, atomic=a, args=["tls", "-p", p, "--", 2]))
    acc = mcsched.run_jobs(prop, tier, jobs)
    extra = {}
    if tier == "thorough" and not acc.viols and not acc.engine_errors:
        extra = mcsched.conformance(acc, [j for j in jobs if j["args"][0] not in ("values", "barrier")])
    cov = mcsched.coverage(acc, "stateless DFS over all interleavings with <= %d preemptions of creator scripts over ref/unref/join x joinable/detached x thread bodies, "
                                "exit codes {return,0,7,-3}, TLS set/replace/set/get by 2-3 threads racing on the first use of the key, foreign threads using p_uthread_current; "
                                "thread start, body, exit and the exit-time TLS destructors run under the scheduler; oracles: tracking allocator (handle freed exactly once, "
                                "only after the last reference, by the end), freed-memory poisoning + happens-before monitor (no touch after free, writes visible after join), "
                                "join code, per-value destroy counters, one native key per PUThreadKey; non-trivial = executions that completed all oracles" % p)
    return common.finish(prop, tier, "model_checking", acc, cov, mcsched.ASSUME, t0, extra=extra)


replay = mcsched.replay
