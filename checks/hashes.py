"""C11: crypto hashes vs an independent implementation (GNU nettle) for every chunking / call sequence within bounds"""
import json, os, subprocess, time
import build, common

NALG = 11
SLOW = {10}        # gost: ~35 MB/s


def exe(variant):
    return build.build_exe("hash_enum", variant, ["harness/hash_enum.c"], ldflags=["-lnettle"])


def run(prop, tier):
    t0 = time.time()
    acc = common.Acc()
    xa = exe("asan")
    jobs = [(xa, ["small", a, 6 if tier == "quick" else 7], "small %d" % a) for a in range(NALG)]
    if tier == "thorough":
        xf = exe("fast")
        B = [64, 64, 64, 64, 128, 128, 144, 136, 104, 72, 32]
        for a in range(NALG):
            cases = [(0, 0, 0), (1, 0, 0), (1, 1, 0), (0, B[a] - 1, 0), (1, 0, 1)]
            if a in SLOW:
                cases = [(1, 0, 0), (0, B[a] - 1, 0)]
            for (b, r, m) in cases:
                jobs.append((xf, ["big", a, b, r, m], "big %d b=%d r=%d mode=%d" % (a, b, r, m)))
            # the other places where a 32-bit byte or bit counter carries: 2^29 bytes = 2^32 bits, 2^31 bytes (sign bit / doubled length), three 1 GiB updates
            more = [(0, 0, 0, 29, 20), (1, 0, 0, 29, 20), (0, 0, 1, 29, 28)]
            if a not in SLOW:
                more += [(0, 0, 0, 31, 20), (1, 0, 0, 31, 20), (0, 1 << 30, 1, 31, 30)]
            for (b, r, m, lg, cl) in more:
                jobs.append((xf, ["big", a, b, r, m, lg, cl], "big %d b=%d r=%d mode=%d 2^%d chunk 2^%d" % (a, b, r, m, lg, cl)))
    jobs.sort(key=lambda j: 0 if j[1][0] == "big" else 1)
    common.parallel(lambda j: common.run_harness(j[0], j[1], acc, "hash_enum " + j[2], timeout=7000, crash_prop=prop, stall=0 if j[1][0] == "big" else 150), jobs)
    # hash objects are independent: two objects of the same algorithm used by two threads at once, under the controlled scheduler + happens-before monitor
    from checks import mcsched
    sacc = mcsched.run_jobs(prop, tier, [dict(src="harness/sched_c11.c", args=["pair", "-p", 1 if tier == "quick" else 2, "--", a]) for a in range(NALG)])
    acc.viols += sacc.viols; acc.jobs += sacc.jobs; acc.samples += sacc.samples[:2]; acc.incomplete += sacc.incomplete; acc.engine_errors += sacc.engine_errors
    for k, v in sacc.stats.items():
        acc.add_stat("sched_" + k, v)
    s = acc.stats
    cov = dict(evaluations=s.get("evaluations", 0), distinct_nontrivial=s.get("nontrivial", 0),
               rule="per algorithm (11): one-shot digests for every length 0..5B+1; every split of every length 0..2B+1 into two updates (covers every (bytes buffered, chunk length) pair incl. exact fills, "
                    "multi-block chunks, padding boundaries); every three-way split for lengths B-1, B, B+1, 2B; every call sequence of depth <= %d over {update(0|1|B-1|B), reset, get_string, get_digest exact, "
                    "get_digest one byte short}; thorough adds single updates of 2^29, 2^31 and 2^32 (+r) bytes arriving on b buffered bytes, a stream crossing 2^32 in 1 MiB chunks and three 1 GiB updates, over a tiled virtual buffer. "
                    "two objects of the same algorithm hashing in two threads at once (all interleavings with <= 1 (2) preemptions at the library's synchronisation points, every access watched by the "
                    "happens-before monitor). Reference: GNU nettle (independent implementation of MD5, SHA-1, SHA-2, SHA-3, GOST R 34.11-94 CryptoPro). distinct non-trivial = distinct (buffered, chunk length) pairs + big inputs"
                    % (6 if tier == "quick" else 7),
               exhaustive=True, concurrent_executions=s.get("sched_executions", 0), split_digests=s.get("split_digests", 0), call_sequences=s.get("call_sequences", 0), big_inputs=s.get("big_inputs", 0))
    assumptions = ["message content is position-coded, not enumerated: a defect that depends on particular byte values inside a compression function is out of reach (see DESIGN.md section 6)",
                   "GNU nettle 3.x is the reference implementation of the standards (cross-checked with the published GOST CryptoPro vector for 'a')"]
    return common.finish(prop, tier, "exploration", acc, cov, assumptions, t0)


def replay(prop, path):
    r = json.load(open(path))
    args = r["replay"].split()
    if args[0].startswith("sched_"):
        from checks import mcsched
        return mcsched.replay(prop, path)
    e = dict(os.environ); e.update(common.ASAN_ENV)
    return subprocess.call([exe("asan")] + args[1:], env=e)
