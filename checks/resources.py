"""C20: resource neutrality - all cross-module programs up to a depth + every single injected system-call failure (harness/resource_seq.c)"""
import json, os, subprocess, time
import build, common
from checks import allocfail

WRAPS = ["mmap", "munmap", "pthread_mutex_init", "pthread_mutex_destroy", "pthread_cond_init", "pthread_cond_destroy", "pthread_rwlock_init", "pthread_rwlock_destroy",
         "dlopen", "dlclose", "close", "socket", "bind", "listen", "accept", "getsockname", "getsockopt", "ftruncate", "fstat", "opendir", "pthread_create", "shm_open", "sem_open"]


def exe():
    return build.build_exe("resource_seq", "asan", ["harness/resource_seq.c", "engine/ipcnames.c"], cflags=["-DIPCNAMES_NO_WRAPPERS"],
                           ldflags=["-Wl," + ",".join("--wrap=" + w for w in WRAPS)])


def run(prop, tier):
    t0 = time.time()
    acc = common.Acc()
    d = allocfail.scratch_dir()
    x = exe()
    depth, ns = (2, 14) if tier == "quick" else (4, 16)
    jobs = [["seq", depth, k, ns] for k in range(ns)] + [["inject"]]
    common.parallel(lambda j: common.run_harness(x, j, acc, "resource_seq " + " ".join(map(str, j)), timeout=7000, crash_prop=prop, env={"VERIF_SCRATCH_DIR": d}), jobs)
    s = acc.stats
    cov = dict(evaluations=s.get("evaluations", 0), distinct_nontrivial=s.get("nontrivial", 0),
               rule="programs = every sequence of up to %d steps out of 22 cross-module steps (trees, hash table + list, INI incl. missing file, hashes, errors, directory existing/missing, TCP exchange, UDP exchange with and without the optional sender address, refused "
                    "connection, accept/receive time-outs and bind to a port in use, semaphore with two handles, shm with equal and with different sizes, shm buffer handles, zero-size shm that fails, "
                    "joined / detached / foreign threads, all lock types, library loader on a valid, a missing and a non-ELF file, TLS key), each run in a forked ASan child; plus, for every system-call "
                    "invocation of every single-step program, that call forced to fail (socket, bind, listen, accept, getsockname, getsockopt, shm_open, sem_open, ftruncate, fstat, mmap, opendir, dlopen, close reporting EINTR after releasing the descriptor, "
                    "pthread_create). Oracle: allocator, descriptor (/proc/self/fd), shared-mapping (byte exact), IPC-name, pthread-object and dlopen ledgers equal their initial state; no close() of a "
                    "descriptor that is not open. non-trivial = programs whose ledgers balanced" % depth,
               exhaustive=True)
    return common.finish(prop, tier, "fault_enumeration", acc, cov,
                         ["lazily created library globals (the thread module's TLS key) are settled by a warm-up thread before the baseline is taken",
                          "a failing sequence is attributed to a single step when that step fails on its own (signature independent of the surrounding sequence)"], t0)


def replay(prop, path):
    r = json.load(open(path))
    e = dict(os.environ); e.update(common.ASAN_ENV); e["VERIF_SCRATCH_DIR"] = allocfail.scratch_dir()
    return subprocess.call([exe()] + r["replay"].split(" ")[1:], env=e)
