"""C02: PRWLock - writers exclusive, readers shared, no lost wake-up / deadlock; posix and general models; spurious wake-ups"""
import time
import common
from checks import mcsched

SRC = "harness/sched_c02.c"
QUICK = [("R", "R", "W"), ("R", "W", "W"), ("W", "W", "RR"), ("r", "w", "W"), ("R", "w", "r"), ("W", "R"), ("WW", "R")]
THOROUGH = [("R", "R", "W", "W"), ("RW", "WR"), ("W", "W", "W"), ("RR", "W", "r"), ("Rw", "Wr", "R")]


def run(prop, tier):
    t0 = time.time()
    jobs = []
    for rw in ("posix", "general"):
        for sc in QUICK + (THOROUGH if tier == "thorough" else []):
            p = 2 if (tier == "quick" or len(sc) > 3) else 3
            jobs.append(dict(src=SRC, rwlock=rw, args=["rw", "-p", p, "-s", 1, "--"] + list(sc), script=sc))
        if tier == "quick":      # two readers queued behind one writer and a second writer arriving later need four threads (no spurious wake-ups here: 20 k executions)
            jobs.append(dict(src=SRC, rwlock=rw, args=["rw", "-p", 2, "-s", 0, "--", "R", "R", "W", "W"], script=("R", "R", "W", "W")))
        jobs.append(dict(src=SRC, rwlock=rw, args=["nest", "-p", 3, "-s", 1], script=()))
        # "any number of readers": more read holds than a 15- or 16-bit counter can represent
        jobs.append(dict(src=SRC, rwlock=rw, args=["many", "-p", 0, "-H", 4000000, "--", 70000], script=()))
    jobs.append(dict(src=SRC, rwlock="posix", args=["relock"], script=()))
    acc = mcsched.run_jobs(prop, tier, jobs)
    # existential clause: readers are shared - in (R,R,W) some schedule must have two readers inside at the same time
    for j in jobs:
        if j["script"] == ("R", "R", "W") and not (acc.exists.get(j["name"], 0) & 1) and not acc.viols and not acc.engine_errors:
            acc.viols.append(dict(t="viol", p=prop, sig="readers-not-shared@%s" % j["name"].split("[")[1].split("]")[0], job=j["name"], replay="",
                                  desc="no explored schedule of two readers and a writer ever had both readers inside the lock at the same time: readers are not shared"))
    extra = {}
    if tier == "thorough" and not acc.viols and not acc.engine_errors:
        extra = mcsched.conformance(acc, [j for j in jobs if j["args"][0] not in ("values", "barrier")])
    cov = mcsched.coverage(acc, "stateless DFS over all interleavings with <= 2 (quick) / 3 preemptions and <= 1 spurious condition wake-up (and every choice of the waiter a signal wakes) "
                                "of 2-4 real threads running scripts over reader/writer lock, trylock, unlock on the real PRWLock, for the posix model (over the pthread rwlock model) and "
                                "the general model (prwlock-general.c compiled in, over modelled mutex+condvars); oracles: shadow reader/writer counts at every entry, plain datum under the "
                                "happens-before monitor, every thread finishes (deadlock / lost wake-up), trylock never waits for a holder, exists a schedule with two concurrent readers; "
                                "non-trivial = executions in which a lock call had to wait or a trylock raced")
    return common.finish(prop, tier, "model_checking", acc, cov, mcsched.ASSUME + [
        "the pthread rwlock model grants a read lock whenever no writer holds the lock (glibc default); a lock created with PTHREAD_RWLOCK_PREFER_WRITER_NONRECURSIVE_NP makes new readers wait "
        "behind a waiting writer while readers hold the lock; harnesses never take read locks recursively in one thread (the nest job does it across threads)"], t0, extra=extra)


replay = mcsched.replay
