"""C04: atomic operations: operand alphabet (values), brute-force linearizability over all interleavings, barriers; x {c11,sync,sim}"""
import time
import common
from checks import mcsched

SRC = "harness/sched_c04.c"

LIN2 = [("0", "i", "i"), ("10", "a5", "a-3"), ("2", "d", "d"), ("0", "c0:1", "c0:2"), ("15", "n12", "o3"), ("6", "x5", "x9"),
        ("0", "s7", "a1"), ("1", "g", "s5"), ("1", "i,g", "d"), ("0x7fffffff", "i", "a1"), ("1", "d,g", "c0:9"),
        ("0", "Pa16", "Pa32"), ("0", "Pc0:8", "Pc0:16"), ("15", "Pn12", "Po3"), ("6", "Px5", "Pa1"), ("0", "Ps64", "Pg"),
        ("0xffffffff", "Pa1", "Pa0x100000000")]
LIN3 = [("3", "d", "d", "d"), ("0", "c0:1", "c0:2", "c0:3"), ("0", "a1", "a1", "a1"), ("4", "i,a2", "d", "x1"), ("0", "Pa1", "Pa1", "Pc1:7")]
LIN_THOROUGH = [("0", "i,i", "i,i"), ("2", "d,g", "d,g"), ("0", "a1,a1", "a1,a1", "a1"), ("0", "c0:1,c1:0", "c0:1,c1:0"), ("0", "s1,g", "s2,g", "g,g"),
                ("7", "n3,o8", "x15,a1"), ("0", "Pa8,Pg", "Pc8:0,Pa1"), ("0", "Ps1,Pg", "Ps2,Pg")]


def run(prop, tier):
    t0 = time.time()
    p = 2 if tier == "quick" else 4
    jobs = []
    for a in ("c11", "sync", "sim"):
        jobs.append(dict(src=SRC, atomic=a, args=["values", "-H", 2000000]))
        jobs.append(dict(src=SRC, atomic=a, args=["barrier"]))
        for k in ("i", "p"):
            jobs.append(dict(src=SRC, atomic=a, args=["mp", "-p", p, "--", k]))
            jobs.append(dict(src=SRC, atomic=a, args=["mp", "-B", "-d", 2, "-p", p, "--", k]))
        for k in ("ii", "pp", "ip"):      # store-buffering litmus under x86-TSO store buffers: up to 2 delayed stores (one per thread is what the forbidden outcome needs)
            jobs.append(dict(src=SRC, atomic=a, args=["sb", "-B", "-d", 2, "-p", p, "--", k]))
        for l in LIN2 + LIN3 + (LIN_THOROUGH if tier == "thorough" else []):
            jobs.append(dict(src=SRC, atomic=a, args=["lin", "-p", p if len(l) < 4 or tier == "quick" else 3, "--"] + list(l)))
    acc = mcsched.run_jobs(prop, tier, jobs)
    if tier == "thorough":
        # value semantics for ALL 2^32 operands (add/and/or/xor x 4 base words), real atomics, no scheduler; sim is mutex based: every 16th operand
        import build
        for a, stride in (("c11", 1), ("sync", 1), ("sim", 16)):
            x = build.build_exe("atomic_sweep", "fast", ["harness/atomic_sweep.c"], atomic=a)
            common.parallel(lambda k: common.run_harness(x, [k, 16, stride], acc, "atomic_sweep[%s] shard %d" % (a, k), timeout=3000, crash_prop=prop), list(range(16)))
    extra = {}
    if tier == "thorough" and not acc.viols and not acc.engine_errors:
        extra = mcsched.conformance(acc, [j for j in jobs if j["args"][0] not in ("values", "barrier")])
    cov = mcsched.coverage(acc, "(a) single-threaded: each of the 20 operations on every (word, operand[, new]) combination of a 9-value boundary alphabet "
                                "(0, +-1, 2, INT_MAX, INT_MIN, INT_MAX-1, 0x55.., 0xAA.. and pointer-width analogues) vs the C expression on a wrapping word; "
                                "(b) 2-3 real threads x 1-2 operations on one shared word, all interleavings with <= %d preemptions, recorded results + final value "
                                "checked against every sequential order (brute force); (c) message passing through set/get under the happens-before monitor, the "
                                "store-buffering litmus (set own word, get the other's; both old = violation) explored with x86-TSO store buffers in the runtime "
                                "(every choice of <= 2 delayed stores x every interleaving), and full-barrier accounting of set/get; each for c11, sync, sim. non-trivial = executions of (b)/(c) jobs that completed their oracle" % p)
    return common.finish(prop, tier, "model_checking", acc, cov, mcsched.ASSUME + [
        "'set/get act as full barriers' is decided (1) by exploring the store-buffering and message-passing litmus tests on an x86-TSO machine model "
        "(per-thread FIFO store buffers for plain/volatile stores and atomic stores weaker than seq_cst, drained by fences, locked operations, locks and system calls; "
        "orderings only a weaker machine than TSO allows, e.g. load-load or store-store reordering on ARM, are not simulated) and (2) by accounting: the runtime sees "
        "the memory order of every atomic op/fence each call executes"], t0, extra=extra)


replay = mcsched.replay
