"""C16: INI parser - robustness over all short byte strings, documented grammar vs a reference parser (harness/ini_enum.c)"""
import json, os, subprocess, time
import build, common


def exe():
    return build.build_exe("ini_enum", "asan", ["harness/ini_enum.c"])


def run(prop, tier):
    t0 = time.time()
    acc = common.Acc()
    x = exe()
    L, N, ns = (5, 3, 16) if tier == "quick" else (6, 4, 16)
    jobs = [["robust", L, s, ns] for s in range(ns)] + [["grammar", N, s, ns] for s in range(ns)] + [["long"]]
    common.parallel(lambda j: common.run_harness(x, j, acc, "ini_enum " + " ".join(map(str, j)), timeout=7000, crash_prop=prop), jobs)
    from checks import indep
    indep_rule = indep.add(prop, tier, acc)
    s = acc.stats
    cov = dict(evaluations=s.get("evaluations", 0), distinct_nontrivial=s.get("nontrivial", 0),
               rule="(a) every byte string of length <= %d over the 18-symbol alphabet {[ ] = \" ' ; # space a \\n NUL EF BB BF FF FE { }} parsed from a memfd: parse returns, every listed section has >= 1 key, "
                    "every listed key exists with a retrievable value, all typed getters return, ASan/UBSan silent; line families of length 1000..1040 and 2040..2060 for 7 line shapes; "
                    "(b) every file of <= %d lines over 23 documented line kinds (blank, comments with and without '=', sections, quoting styles, comment markers inside quotes, '=' in values, lists, "
                    "numbers, booleans, trailing comments), with and without a UTF-8 BOM, compared with a reference parser written from pinifile.h: sections, keys, last-assignment-wins values, "
                    "int/double/boolean/list getters, defaults. non-trivial = (section,key) pairs whose value was checked" % (L, N),
               exhaustive=True, independent_objects=indep_rule.strip('; '), grammar_files_not_judged=s.get("grammar_files_not_judged_repeated_section", 0))
    return common.finish(prop, tier, "exploration", acc, cov,
                         ["files that open the same section name twice are checked for robustness only (merging is not documented)",
                          "lines longer than the 1024-byte limit are checked for robustness only"], t0)


def replay(prop, path):
    r = json.load(open(path))
    args = r["replay"].split(" ")
    e = dict(os.environ); e.update(common.ASAN_ENV)
    return subprocess.call([exe()] + args[1:], env=e)
