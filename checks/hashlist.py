"""C15: BFS over the real PHashTable / PList against reference models, under ASan+UBSan (harness/hash_bfs.c)."""
import json, os, subprocess, time
import build, common


def exe():
    return build.build_exe("hash_bfs", "asan", ["harness/hash_bfs.c"], exclude=("phashtable.c",))


def run(prop, tier):
    t0 = time.time()
    x = exe()
    acc = common.Acc()
    jobs = [("table", 3 if tier == "quick" else 4), ("list", 5 if tier == "quick" else 8)]
    common.parallel(lambda j: common.run_harness(x, list(j), acc, "hash_bfs %s %d" % j, timeout=3000, crash_prop=prop), jobs)
    from checks import indep
    indep_rule = indep.add(prop, tier, acc)
    s = acc.stats
    cov = dict(states=s.get("states", 0), transitions=s.get("transitions", 0),
               traces_validated_against_impl=s.get("canon_on_replay_checks", 0) + s.get("table_mutating_transitions", 0) + s.get("list_transitions", 0),
               evaluations=s.get("transitions", 0), distinct_nontrivial=s.get("nontrivial", 0),
               rule="hash table: BFS to closure over bucket-chain states (chains in order, read white-box) with <= %d live keys from a 13-key universe "
                    "(NULL, three keys of one bucket, all-ones, INT_MAX and INT_MAX-36/-37 low words, negative low words, high-word patterns) x 3 values (NULL,A,B); "
                    "in every state: lookup of every key, keys(), values(), lookup_by_value with and without comparator vs an assoc array. "
                    "list: every content sequence over {NULL,a,b} up to length %d x every op. non-trivial = states with a collision chain of >= 2 / lists of >= 1 element. "
                    "UBSan/ASan no-recover decide 'no undefined behaviour'." % (jobs[0][1], jobs[1][1]),
               exhaustive=True, independent_objects=indep_rule.strip('; '))
    assumptions = ["bucket count is read from the real table; the three colliding keys are 1, 1+101, 1+2*101 (if the bucket count changed they would no longer collide: reported by table_states_with_collision_chain)",
                   "UB is judged by gcc's -fsanitize=undefined,address instrumentation"]
    if s.get("table_states_with_collision_chain", 0) == 0 and not acc.viols:
        raise common.EngineError("vacuous: no state with a collision chain was reached")
    return common.finish(prop, tier, "model_checking", acc, cov, assumptions, t0)


def replay(prop, path):
    r = json.load(open(path))
    args = r["replay"].split()
    e = dict(os.environ); e.update(common.ASAN_ENV)
    return subprocess.call([exe()] + args[1:], env=e)
