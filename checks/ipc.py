"""C06 / C07: named semaphore and shared memory.
 (a) cross-process histories: BFS with dedup on the reference state, every history executed on real kernel objects by two forked workers (harness/ipc_hist.c)
 (b) interleavings of concurrent users under the controlled scheduler (harness/sched_ipc.c)
 (c) crash points: SIGKILL before/after every IPC system call of a victim script, then the documented recovery"""
import json, os, subprocess, time
import build, common
from checks import mcsched

WRAPS = ["sem_wait", "sem_post", "sem_open", "sem_close", "sem_unlink", "shm_open", "shm_unlink", "ftruncate", "mmap", "munmap"]


def hist_exe():
    return build.build_exe("ipc_hist", "asan", ["harness/ipc_hist.c", "engine/ipcnames.c"], cflags=["-DIPCNAMES_NO_WRAPPERS"],
                           ldflags=["-Wl," + ",".join("--wrap=" + w for w in WRAPS)])


def run(prop, tier):
    t0 = time.time()
    x = hist_exe()
    acc = common.Acc()
    kind = "sem" if prop == "C06" else "shm"
    depth = (4 if tier == "quick" else 5) if kind == "sem" else (4 if tier == "quick" else 5)
    ns = 12
    hjobs = [[kind, depth, k, ns] for k in range(ns)] + [[kind + "crash", 0, k, 2] for k in range(2)]
    # the same BFS one level shallower with names of 307 (decorated: exactly five 64-byte hash blocks) and of 1000 characters that differ in the last character only (the name is hashed: no length is special)
    hjobs += [["%s@%d" % (kind, ln), depth - 1, k, 2] for ln in (307, 1000) for k in range(2)]
    common.parallel(lambda j: common.run_harness(x, j, acc, "ipc_hist " + " ".join(map(str, j)), timeout=7000, crash_prop=prop), hjobs)
    p = 2 if tier == "quick" else 3
    if prop == "C06":
        sjobs = [dict(src="harness/sched_ipc.c", ipc=True, args=["sem", "-p", p, "--", 3, 1]), dict(src="harness/sched_ipc.c", ipc=True, args=["sem", "-p", p, "--", 3, 2]),
                 dict(src="harness/sched_ipc.c", ipc=True, args=["sem", "-p", p + 1, "--", 2, 1]), dict(src="harness/sched_ipc.c", ipc=True, args=["semrace", "-p", p + 1]),
                 dict(src="harness/sched_ipc.c", ipc=True, args=["semcreate", "-p", p])]
    else:
        sjobs = [dict(src="harness/sched_ipc.c", ipc=True, args=["shmlock", "-p", p, "--", 2]), dict(src="harness/sched_ipc.c", ipc=True, args=["shmlock", "-p", 2, "--", 3]),
                 dict(src="harness/sched_ipc.c", ipc=True, args=["shmcreate", "-p", p, "--", 2]), dict(src="harness/sched_ipc.c", ipc=True, args=["shmrace", "-p", p + 1])]
    sacc = mcsched.run_jobs(prop, tier, sjobs)
    acc.viols += sacc.viols; acc.jobs += sacc.jobs; acc.samples += sacc.samples[:3]; acc.incomplete += sacc.incomplete; acc.notes += sacc.notes; acc.engine_errors += sacc.engine_errors
    for k, v in sacc.stats.items():
        acc.add_stat("sched_" + k, v)
    s = acc.stats
    cov = dict(states=s.get("states", 0) + s.get("sched_distinct_fingerprints", 0), transitions=s.get("transitions", 0) + s.get("sched_visible_steps", 0),
               traces_validated_against_impl=s.get("histories", 0) + s.get("sched_executions", 0),
               evaluations=s.get("histories", 0) + s.get("sched_executions", 0), distinct_nontrivial=s.get("nontrivial", 0) + s.get("sched_nontrivial_executions", 0),
               crash_points=s.get("crash_points", 0), histories=s.get("histories", 0), concurrent_executions=s.get("sched_executions", 0),
               rule="(a) BFS over histories of new/acquire|lock/release|unlock/write/read/take_ownership/free on 2 names (115 characters long, equal except for the last character; one level shallower also 307 and 1000 characters long) x 3 handle slots spread over 2 forked processes, (the third slot opens an existing segment read-only; after every open of an existing segment the size of the object is compared with the size before and every other handle of the name touches its last byte under the MMU), up to depth %d, deduplicated on the "
                    "canonical reference-model state; every history runs from scratch on the real kernel objects and is compared step by step (blocking is reported by the worker's sem_wait wrapper, "
                    "not inferred from timing), final drain of the counters and name-space check; (b) all interleavings with <= %d preemptions at every IPC system call of 2-3 concurrent users; "
                    "(c) SIGKILL before and after every IPC system call of victim scripts followed by the documented recovery in a fresh process. non-trivial = blocked calls observed + crash points "
                    "+ contended executions" % (depth, p),
               exhaustive=True)
    assumptions = ["real POSIX named semaphores / shared memory of this kernel; threads stand for processes in (b) (each with its own handle: same library code path), real processes in (a) and (c)",
                   "what the property leaves open (creator's free without take_ownership removes the name; size reported for a handle opened with a different size) follows the implementation and is not judged",
                   "a 'still blocked' verdict at the end of a history uses a 30 ms grace period (can only miss, never raise, a violation)"]
    return common.finish(prop, tier, "model_checking", acc, cov, assumptions, t0)


def replay(prop, path):
    r = json.load(open(path))
    args = r["replay"].split(" ")
    if args[0].startswith("sched_"):
        return mcsched.replay(prop, path)
    e = dict(os.environ); e.update(common.ASAN_ENV)
    return subprocess.call([hist_exe()] + args[1:], env=e)
