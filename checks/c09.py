"""C09: socket data integrity over KSIM under the controlled scheduler: interleavings x EINTR/EAGAIN/short-transfer deviations"""
import time
import common
from checks import mcsched

SRC = "harness/sched_c09.c"


def run(prop, tier):
    t0 = time.time()
    p, d = (2, 1) if tier == "quick" else (2, 2)
    jobs = []
    # (msglen, sendchunk, recvbuf, client blocking, server blocking, family) against 8-byte KSIM stream buffers
    streams = [(9, 3, 4, 1, 1, 4), (9, 9, 16, 1, 1, 6), (20, 20, 16, 1, 1, 4), (9, 3, 1, 0, 1, 4), (9, 9, 4, 1, 0, 6), (7, 1, 16, 0, 0, 4), (1, 1, 1, 1, 1, 4), (8, 8, 4, 1, 1, 4), (9, 3, 4, 1, 1, 4, 100), (9, 9, 4, 0, 1, 6, 70), (9, 3, 4, 1, 1, 4, 0, 1)]
    if tier == "thorough":
        streams += [(20, 3, 4, 0, 0, 6), (17, 7, 16, 1, 0, 4), (9, 3, 4, 0, 0, 4)]
    for s in streams:
        jobs.append(dict(src=SRC, ksim=True, args=["stream", "-p", p, "-d", d, "--"] + list(s)))
    for rb in (4, 16):
        for f in (4, 6):
            jobs.append(dict(src=SRC, ksim=True, args=["dgram", "-p", p, "-d", d, "--", rb, f]))
    jobs.append(dict(src=SRC, ksim=True, args=["dgram", "-p", p, "-d", d, "--", 4, 4, "z"]))       # empty datagrams
    jobs.append(dict(src=SRC, ksim=True, args=["dgram", "-p", p, "-d", d, "--", 16, 6, "z"]))
    jobs.append(dict(src=SRC, ksim=True, args=["peergone", "-p", p + 1, "-d", d]))
    jobs.append(dict(src=SRC, ksim=True, args=["peergone", "-p", p, "-d", d, "--", "handler"]))       # the application had installed a SIGPIPE handler before p_libsys_init
    jobs.append(dict(src=SRC, ksim=True, args=["halfclose", "-p", p, "-d", d]))
    jobs.append(dict(src=SRC, ksim=True, args=["accept2", "-p", p, "-d", d]))
    jobs.append(dict(src=SRC, ksim=True, args=["stalled", "-p", p, "-d", d]))      # blocking sender with a time-out, 20 bytes into 8-byte buffers, peer that does not read      # two threads in accept on one listener, one connection
    for v in ("b50", "n"):       # connect whose handshake stays pending, under every pattern of interruptions of connect / poll
        jobs.append(dict(src=SRC, ksim=True, args=["pending", "-p", 0, "-d", d + 1, "--", v]))
    acc = mcsched.run_jobs(prop, tier, jobs, extra_props=("SCHED", "RACE", "UAF", "POSIX", "MEM", "KSIM"))
    cov = mcsched.coverage(acc, "client and server threads, each with its own PSocket, over the in-memory socket layer KSIM (8-byte stream buffers, 2-datagram queues, so short writes and EAGAIN arise on their own): "
                                "all interleavings with <= %d preemptions x all patterns of <= %d deviations (EINTR at connect/accept/send/sendto/recv/recvfrom/poll, spurious EAGAIN, extra-short transfer); "
                                "message/chunk/buffer sizes around the buffer size, blocking and non-blocking mixes, both families, datagrams of 1/5/9 and of 0/5/0 bytes into 4/16-byte buffers, sends to a closed peer; "
                                "oracle: bytes received = bytes reported sent, datagram identity and sender address, no internal would-block/interrupted error surfaced in blocking mode, no SIGPIPE, all threads finish" % (p, d))
    return common.finish(prop, tier, "model_checking", acc, cov, mcsched.ASSUME + [
        "KSIM models the Linux socket calls psocket.c uses; it is bound to the real kernel by the conformance replay of the C10 check (every sequential API trace is also run on real loopback sockets)",
        "virtual time: a poll time-out fires only when no thread can run"], t0)


replay = mcsched.replay
