"""C01: PMutex / PSpinLock mutual exclusion, visibility, trylock - all interleavings up to a preemption bound, x {c11,sync,sim}"""
import time
import common
from checks import mcsched

SRC = "harness/sched_c01.c"


def run(prop, tier):
    t0 = time.time()
    p = 2 if tier == "quick" else 3
    jobs = []
    for a in ("c11", "sync", "sim"):
        for kind in ("s", "m"):
            if kind == "m" and a != "c11" and tier == "quick":
                continue                  # PMutex is model independent; its harnesses run once in quick
            jobs.append(dict(src=SRC, atomic=a, args=["excl", "-p", p, "--", kind, 2, 2]))
            jobs.append(dict(src=SRC, atomic=a, args=["excl", "-p", p if tier == "quick" else 2, "--", kind, 3, 1]))
            jobs.append(dict(src=SRC, atomic=a, args=["mix", "-p", p, "--", kind]))
            jobs.append(dict(src=SRC, atomic=a, args=["free", "--", kind]))
            if tier == "thorough":
                jobs.append(dict(src=SRC, atomic=a, args=["excl", "-p", 2, "--", kind, 3, 2]))
                jobs.append(dict(src=SRC, atomic=a, args=["excl", "-p", 8, "--", kind, 2, 1]))
    # exclusion for every number of consecutive fruitless acquisition attempts up to 2^24 + 2^16 (2^28 thorough): the waiter is not parked before that
    patience = (1 << 24) + (1 << 16) if tier == "quick" else (1 << 28)
    for a in ("c11", "sync", "sim"):
        jobs.append(dict(src=SRC, atomic=a, args=["hold", "-p", 0, "-S", patience, "-H", 4 * patience, "--", "s"]))
    # a mutex that p_cond_variable_wait has released is free: a thread that only ever uses trylock must get it (sched_c03.c trypub)
    jobs.append(dict(src="harness/sched_c03.c", args=["trypub", "-p", p, "-s", 1]))
    acc = mcsched.run_jobs(prop, tier, jobs)
    if tier == "thorough":
        # 2^32 + 16 consecutive failing trylock calls on a held spinlock, real threads, optimised build: a lock word that counts attempts would wrap to "free"
        import build
        xs = dict((a, build.build_exe("count_wrap", "fast", ["harness/count_wrap.c"], atomic=a)) for a in ("c11", "sync", "sim"))
        common.parallel(lambda a: common.run_harness(xs[a], [32, 16], acc, "count_wrap[%s] 2^32+16 failed trylock calls" % a, timeout=3000, crash_prop=prop, stall=0), list(xs))
    extra = {}
    if tier == "thorough" and not acc.viols and not acc.engine_errors:
        extra = mcsched.conformance(acc, [j for j in jobs if j["args"][0] not in ("values", "barrier")])
    cov = mcsched.coverage(acc, "stateless DFS over all interleavings with <= %d preemptions of 2-3 real threads x (lock|trylock; critical section with a visible step; unlock) "
                                "on the real PMutex/PSpinLock for each atomic model; oracles: shadow holder count, plain counter watched by the happens-before monitor, "
                                "deadlock/livelock, blocked-inside-trylock; one long execution per model in which the holder stays inside while a waiter makes "
                                "%d fruitless attempts before it is treated as blocked (spin abstraction switched off up to that count); non-trivial = executions in which an acquisition had to wait" % (p, patience))
    return common.finish(prop, tier, "model_checking", acc, cov, mcsched.ASSUME, t0, extra=extra)


replay = mcsched.replay
