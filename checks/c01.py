"""C01: PMutex / PSpinLock mutual exclusion, visibility, trylock - all interleavings up to a preemption bound, x {c11,sync,sim}"""
import time
import common
from checks import mcsched

SRC = "harness/sched_c01.c"


def run(prop, tier):
    t0 = time.time()
    p = 2 if tier == "quick" else 3
    jobs = []
    for a in ("c11", "sync", "sim"):
        for kind in ("s", "m"):
            if kind == "m" and a != "c11" and tier == "quick":
                continue                  # PMutex is model independent; its harnesses run once in quick
            jobs.append(dict(src=SRC, atomic=a, args=["excl", "-p", p, "--", kind, 2, 2]))
            jobs.append(dict(src=SRC, atomic=a, args=["excl", "-p", p if tier == "quick" else 2, "--", kind, 3, 1]))
            jobs.append(dict(src=SRC, atomic=a, args=["mix", "-p", p, "--", kind]))
            jobs.append(dict(src=SRC, atomic=a, args=["free", "--", kind]))
            if tier == "thorough":
                jobs.append(dict(src=SRC, atomic=a, args=["excl", "-p", 2, "--", kind, 3, 2]))
                jobs.append(dict(src=SRC, atomic=a, args=["excl", "-p", 8, "--", kind, 2, 1]))
    acc = mcsched.run_jobs(prop, tier, jobs)
    extra = {}
    if tier == "thorough" and not acc.viols:
        extra = mcsched.conformance(acc, [j for j in jobs if j["args"][0] not in ("values", "barrier")])
    cov = mcsched.coverage(acc, "stateless DFS over all interleavings with <= %d preemptions of 2-3 real threads x (lock|trylock; critical section with a visible step; unlock) "
                                "on the real PMutex/PSpinLock for each atomic model; oracles: shadow holder count, plain counter watched by the happens-before monitor, "
                                "deadlock/livelock, blocked-inside-trylock; non-trivial = executions in which an acquisition had to wait" % p)
    return common.finish(prop, tier, "model_checking", acc, cov, mcsched.ASSUME, t0, extra=extra)


replay = mcsched.replay
