"""C10: socket modes and lifecycle: BFS over API call sequences on KSIM with a virtual clock vs a reference state machine;
every explored trace is replayed on the real kernel (loopback, poll interposed for the virtual clock) and must agree (conformance)"""
import json, os, subprocess, time
import build, common

KSIM_WRAPS = build.KSIM_WRAPS


def exe(real):
    if real:
        return build.build_exe("sock_bfs_real", "asan", ["harness/sock_bfs.c"], ldflags=["-Wl,--wrap=poll"])
    return build.build_exe("sock_bfs", "asan", ["harness/sock_bfs.c", "engine/ksim.c"], cflags=["-DUSE_KSIM"],
                           ldflags=["-Wl," + ",".join("--wrap=" + w for w in KSIM_WRAPS)])


def run(prop, tier):
    t0 = time.time()
    acc = common.Acc()
    xk, xr = exe(False), exe(True)
    depth = {"stream": 8 if tier == "quick" else 12, "dgram": 9 if tier == "quick" else 14}
    os.makedirs(common.SCRATCH, exist_ok=True)
    jobs = [(k, f) for k in ("stream", "dgram") for f in (4, 6)]
    # the same exploration, one level shallower, on a socket object built by p_socket_new_from_fd around a descriptor made by the harness
    depth["stream-fd"] = depth["stream"] - 1; depth["dgram-fd"] = depth["dgram"] - 1
    jobs += [("stream-fd", 4), ("dgram-fd", 6)]

    netns = subprocess.call([xr, "netns-probe"], stdout=subprocess.DEVNULL, stderr=subprocess.DEVNULL) == 0

    def one(j):
        k, f = j
        tf = os.path.join(common.SCRATCH, "c10_traces_%s_%d_%d.txt" % (k, f, os.getpid()))
        common.run_harness(xk, ["explore", k, f, depth[k], tf], acc, "sock_bfs[ksim] %s IPv%d depth %d" % (k, f, depth[k]), timeout=7000, crash_prop=prop, fill=1 if f == 6 else 0)
        if acc.viols:
            return          # the model run already decided; a broken library may hang on the real kernel
        # conformance: the same traces on the real kernel; a mismatch is a KSIM bug = engine error (exit 2), never a verdict.
        # Two replays on the same protocol and family must not overlap in time, in this run or in another run on this machine: the library binds with
        # SO_REUSEADDR, so the kernel may hand two such sockets the same ephemeral port and the later listen() fails.  One lock file per protocol/family.
        # One lock file per protocol/family - unless the replay can run in a network namespace of its own (own ports, own TIME_WAIT table), which it does if allowed.
        import fcntl
        lf = None
        if not netns:
            lf = open("/var/tmp/.verif-c10-%s%d.lock" % (k[:3], f), "w")
            fcntl.flock(lf, fcntl.LOCK_EX)
        try:
            common.run_harness(xr, ["check", k, f, depth[k], tf], acc, "sock_bfs[real] %s IPv%d conformance" % (k, f), timeout=7000, crash_prop=prop)
        finally:
            if lf:
                fcntl.flock(lf, fcntl.LOCK_UN); lf.close()
        try:
            os.unlink(tf)
        except OSError:
            pass
    common.parallel(one, jobs)
    s = acc.stats
    cov = dict(states=s.get("states", 0), transitions=s.get("transitions", 0), traces_validated_against_impl=s.get("conformance_traces_checked", 0),
               evaluations=s.get("histories", 0), distinct_nontrivial=s.get("nontrivial", 0), conformance_mismatches=s.get("conformance_mismatches", 0),
               rule="BFS over call sequences up to depth %d (deduplicated on the reference state) on one socket under test (stream / datagram, IPv4 / IPv6; made by p_socket_new, or one level shallower by p_socket_new_from_fd) plus a scripted peer: set_blocking, set_timeout "
                    "{0,50,-5}, set_keepalive, set_listen_backlog, bind, listen, connect to a listening / a closed port, accept, send, receive, io_condition_wait, shutdown, close, close again, peer connects / "
                    "sends / closes, send_to / receive_from; after every call all getters are compared with the reference, waits are judged on the virtual clock (timed-out not before T, non-blocking returns at "
                    "once without a blocking poll, no time-out = unbounded wait), every I/O call after close fails with not-available without a system call on a descriptor, new and accepted descriptors carry "
                    "close-on-exec. Every explored trace is replayed on real loopback sockets; the per-step outcome tuples must be identical. non-trivial = calls that timed out or waited" % depth["stream"],
               exhaustive=True)
    return common.finish(prop, tier, "model_checking", acc, cov,
                         ["the socket layer is a model (KSIM); it is bound to the Linux kernel of this sandbox by replaying every explored trace on real loopback sockets (a mismatch aborts the check as an engine error)",
                          "virtual clock: single-threaded harness, so a poll that is not ready now can never become ready; it advances the clock by its time-out",
                          "operations outside what the property / psocket.h define in a state (e.g. send on an unconnected socket) are not in the alphabet"], t0)


def replay(prop, path):
    r = json.load(open(path))
    e = dict(os.environ); e.update(common.ASAN_ENV)
    return subprocess.call([exe("[real]" in r.get("job", ""))] + r["replay"].split(" ")[1:], env=e)
