"""C18: allocation failure at any point - exhaustive single-fault enumeration per scenario (harness/alloc_fault.c)"""
import json, os, shutil, subprocess, time
import build, common

SCEN = ["tree-bst", "tree-rb", "tree-avl", "hashtable-list", "strings-errors", "inifile", "cryptohash", "ipc", "sockets", "dir", "libraryloader", "threads-tls", "locks", "timeprofiler-strtok-process-file"]
INI = "[numbers]\ni = 12\nd = 1.5\nb = true\n\n# comment\n[strings]\ns = \"text ; with # marks\"\nt = plain\n\n[lists]\nl = {a b c}\n"


def exe(rwlock="posix", atomic="c11"):
    return build.build_exe("alloc_fault", "asan", ["harness/alloc_fault.c", "engine/ipcnames.c"], ldflags=["-Wl,--wrap=shm_open,--wrap=sem_open"], rwlock=rwlock, atomic=atomic)


def scratch_dir():
    d = os.path.join(common.SCRATCH, "c18dir")
    os.makedirs(d, exist_ok=True)
    for f in ("file_a", "file_b"):
        open(os.path.join(d, f), "w").write("x")
    open(os.path.join(d, "c18.ini"), "w").write(INI)
    return d


def run(prop, tier):
    t0 = time.time()
    acc = common.Acc()
    d = scratch_dir()
    jobs = [(exe(), s, "c11,posix") for s in SCEN]
    # build-selectable models that allocate differently: general rwlock, sim atomics/spinlock
    jobs += [(exe(rwlock="general"), "locks", "c11,general"), (exe(atomic="sim"), "locks", "sim,posix"), (exe(atomic="sim"), "threads-tls", "sim,posix")]
    if tier == "thorough":
        jobs += [(exe(), sc, "c11,posix", "pairs") for sc in SCEN]
    common.parallel(lambda j: common.run_harness(j[0], ["all", j[1]] + (["pairs"] if len(j) > 3 else []), acc, "alloc_fault[%s] %s%s" % (j[2], j[1], " pairs" if len(j) > 3 else ""), timeout=3000, crash_prop=prop, env={"VERIF_SCRATCH_DIR": d}), jobs)
    for v in acc.viols:
        var = v.get("job", "").split("[")[1].split("]")[0] if "[" in v.get("job", "") else ""
        if var and var != "c11,posix":
            v["sig"] += "@" + var
    s = acc.stats
    cov = dict(evaluations=s.get("evaluations", 0), distinct_nontrivial=s.get("nontrivial", 0),
               rule="for each of %d scenarios (trees x3, hash table + list, strings + errors, INI parse + getters, all 11 hash types, semaphore/shm/shm buffer, TCP+UDP sockets with addresses on loopback, "
                    "directory iteration, library loader, thread create/join + foreign thread + TLS, every lock type; locks/threads also on the general rwlock and sim atomic models): the run is executed "
                    "once to count its allocations N, then once per (k < N, mode in {k only, k and all later}) - thorough: also every pair k1 < k2 of single failures - in a forked ASan/UBSan child with the failing allocator installed through p_mem_set_vtable; "
                    "oracle: child exits normally, block ledger balanced after the scenario freed what it obtained, pre-existing objects answer as before, no IPC name left. "
                    "non-trivial = (scenario, k, mode) triples whose fault was reached and survived" % len(SCEN),
               exhaustive=True, scenarios=s.get("scenarios", 0))
    return common.finish(prop, tier, "fault_enumeration", acc, cov,
                         ["allocation order inside a scenario is deterministic (checked: a fault that is never reached is reported as a note)",
                          "the pthread key block that p_uthread_local_free documents as not removed is tolerated here (judged by C20)"], t0)


def replay(prop, path):
    r = json.load(open(path))
    args = r["replay"].split(" ")
    var = r.get("job", "").split("[")[1].split("]")[0].split(",") if "[" in r.get("job", "") else ["c11", "posix"]
    e = dict(os.environ); e.update(common.ASAN_ENV); e["VERIF_SCRATCH_DIR"] = scratch_dir()
    return subprocess.call([exe(rwlock=var[1], atomic=var[0])] + args[1:], env=e)
