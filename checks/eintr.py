"""C19: EINTR injected at every k-th (and every pair of) blocking system call invocation per scenario (harness/eintr_fault.c)"""
import json, os, subprocess, time
import build, common

WRAPS = ["clock_nanosleep", "nanosleep", "select", "gettimeofday", "sem_wait", "poll", "connect", "accept", "recv", "recvfrom", "send", "sendto", "shm_open", "sem_open"]


def exe():
    return build.build_exe("eintr_fault", "asan", ["harness/eintr_fault.c", "engine/ipcnames.c"], cflags=["-DIPCNAMES_NO_WRAPPERS"],
                           ldflags=["-Wl," + ",".join("--wrap=" + w for w in WRAPS)])


def sleep_variant_exe(tag, flags):
    """the other two implementations of p_uthread_sleep that puthread.c contains (nanosleep; select with an empty descriptor set), selected by the configure-time macros"""
    return build.build_exe("eintr_fault_" + tag, "asan", ["harness/eintr_fault.c", "engine/ipcnames.c", os.path.join(build.REPO, "src", "puthread.c")], exclude=("puthread.c",),
                           cflags=["-DIPCNAMES_NO_WRAPPERS"] + flags, ldflags=["-Wl," + ",".join("--wrap=" + w for w in WRAPS)])


def run(prop, tier):
    t0 = time.time()
    acc = common.Acc()
    common.run_harness(exe(), ["all", 0 if tier == "quick" else 1], acc, "eintr_fault all", timeout=3000, crash_prop=prop)
    for tag, flags in (("nanosleep", ["-UPLIBSYS_HAS_CLOCKNANOSLEEP", "-DPLIBSYS_HAS_NANOSLEEP"]), ("select", ["-UPLIBSYS_HAS_CLOCKNANOSLEEP", "-UPLIBSYS_HAS_NANOSLEEP"])):
        common.run_harness(sleep_variant_exe(tag, flags), ["all", 0 if tier == "quick" else 1, "sleep"], acc, "eintr_fault[sleep via %s] sleep scenarios" % tag, timeout=3000, crash_prop=prop)
    for v in acc.viols:
        if "sleep via" in v.get("job", ""):
            v["sig"] += "@" + v["job"].split("sleep via ")[1].split("]")[0]
    probe = {}
    if tier == "thorough" and not acc.viols and not acc.engine_errors:
        # binding of the injection convention to reality: one real handled signal per case (non-deciding; a mismatch is an engine error)
        px = build.build_exe("signal_probe", "plain", ["harness/signal_probe.c"])
        r = subprocess.run([px], stdout=subprocess.PIPE, stderr=subprocess.STDOUT, text=True, timeout=120)
        lines = [l for l in r.stdout.splitlines() if l.startswith("PROBE ")]
        probe = dict(real_signal_probes=len(lines), real_signal_probe_lines=lines)
        if r.returncode != 0 or any(" MISMATCH " in l for l in lines):
            raise common.EngineError("real-signal probe disagrees with the injector's convention table or the library: %s" % [l for l in lines if "MISMATCH" in l])
    s = acc.stats
    cov = dict(evaluations=s.get("evaluations", 0), distinct_nontrivial=s.get("nontrivial", 0),
               rule="scenarios: p_uthread_sleep(30) on a virtual clock (interrupted after a third of the time and 0.4 ms before the end; for each of the three implementations puthread.c contains: "
                    "clock_nanosleep, nanosleep, select), semaphore acquire (unit available / arriving later from another thread), shm new+open+lock/unlock, semaphore OPEN/CREATE on absent and "
                    "present names, TCP connect/accept/send/io_condition_wait/receive both ways + idle receive that must time out, UDP send_to/receive_from on loopback; EINTR is injected at every "
                    "invocation index k of clock_nanosleep, nanosleep, sem_wait, sem_open, shm_open, poll, connect, accept, recv, recvfrom, send, sendto%s, with each call's real convention and without "
                    "performing the call; oracle: API-visible outcome string identical to the run without injection, sleep returns 0 with >= 30 ms of virtual time, no error carrying native code EINTR. "
                    "non-trivial = runs in which an injection point was actually reached" % (" and at every pair k1<k2" if tier == "thorough" else ""),
               exhaustive=True)
    return common.finish(prop, tier, "fault_enumeration", acc, cov,
                         ["asynchronous delivery timing of real signals is not enumerable; the interruption points the kernel can produce are (every blocking call invocation)",
                          "the interrupted-call conventions mirror Linux: clock_nanosleep returns EINTR and leaves errno alone, all other calls return -1 with errno = EINTR (thorough tier: bound by a real-signal probe)"], t0, extra=probe)


def replay(prop, path):
    r = json.load(open(path))
    e = dict(os.environ); e.update(common.ASAN_ENV)
    return subprocess.call([exe()] + r["replay"].split(" ")[1:], env=e)
