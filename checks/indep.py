"""independent objects used by two threads at once (shared by the checks of C12, C15, C16, C17): SCHED jobs over harness/sched_indep.c"""
import os
import common
from checks import mcsched

INI_TEXT = "[alpha]\nname = first ; c\nnum = 12\nflag = TRUE\nreal = 2.5\nitems = {a bb ccc}\n\n[beta]\nname = \"second one\"\nnum = -7\nflag = false\nreal = 1e3\nitems = {100 20 3}\nextra = x\n"


def add(prop, tier, acc):
    p = 1 if tier == "quick" else 2
    if prop not in ("C12", "C15", "C16", "C17"):
        return ""
    if prop == "C12":
        args = [["indep", "-p", p, "--", "tree", t] for t in (0, 1, 2)]
    elif prop == "C15":
        args = [["indep", "-p", p, "--", "hash"], ["indep", "-p", p, "--", "list"]]
    elif prop == "C16":
        os.makedirs(common.SCRATCH, exist_ok=True)
        path = os.path.join(common.SCRATCH, "indep_%d.ini" % os.getpid())
        open(path, "w").write(INI_TEXT)
        args = [["indep", "-p", p, "--", "ini", path]]
    else:
        args = [["indep", "-p", p, "--", "addr"]]
    sacc = mcsched.run_jobs(prop, tier, [dict(src="harness/sched_indep.c", args=a) for a in args])
    acc.viols += sacc.viols; acc.jobs += sacc.jobs; acc.samples += sacc.samples[:2]; acc.incomplete += sacc.incomplete; acc.engine_errors += sacc.engine_errors
    for k, v in sacc.stats.items():
        acc.add_stat("sched_" + k, v)
    return ("; two threads running the same call sequence on objects of their own under the controlled scheduler + happens-before monitor "
            "(module-level state shared between unrelated objects is a data race), results compared with the sequence run alone")
