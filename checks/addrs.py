"""C17: socket address conversions vs the platform, bounded-exhaustive (harness/addr_enum.c)"""
import json, os, subprocess, time
import build, common


def exe(variant):
    return build.build_exe("addr_enum", variant, ["harness/addr_enum.c"])


def run(prop, tier):
    t0 = time.time()
    acc = common.Acc()
    xa = exe("asan")
    L = 6 if tier == "quick" else 7
    ns = 8 if tier == "quick" else 16
    jobs = [(xa, ["v4class"]), (xa, ["v6"]), (xa, ["lengths"]), (xa, ["ports"])]
    jobs += [(xa, ["strings", L, s, ns]) for s in range(ns)]
    if tier == "thorough":
        xf = exe("fast")
        jobs += [(xf, ["v4all", s, 16]) for s in range(16)]
    common.parallel(lambda j: common.run_harness(j[0], j[1], acc, "addr_enum " + " ".join(map(str, j[1])), timeout=7000, crash_prop=prop), jobs)
    from checks import indep
    indep_rule = indep.add(prop, tier, acc)
    s = acc.stats
    cov = dict(evaluations=s.get("evaluations", 0), distinct_nontrivial=s.get("nontrivial", 0),
               rule="IPv4: every address with each octet in {0,1,126,127,128,254,255} x 8 boundary ports%s; all 65536 ports on 4 IPv4 + 1 IPv6 address; IPv6: every address with each 16-bit group in "
                    "{0,1,0xffff,0x7f00} (65536) + 15 special families x flowinfo/scope in {0,1,0xffffffff}; every string of length <= %d over {1,2,5,.,:,f,%%,space} + 32 hand-built forms; "
                    "new_from_native / to_native with every length 0..40 on exact-size heap blocks under ASan. Oracle: inet_pton / inet_ntop / getaddrinfo(AI_NUMERICHOST) of this platform. "
                    "non-trivial = cases where the conversion succeeded (accepted strings, successful length cases, all address cases)" % (" and all 2^32 IPv4 addresses" if tier == "thorough" else "", L),
               exhaustive=True, independent_objects=indep_rule.strip('; '), per_mode=dict((k, v) for k, v in s.items() if k.startswith("evaluations_")))
    return common.finish(prop, tier, "exploration", acc, cov, ["the platform's resolver functions define the expected results (differential oracle)"], t0)


def replay(prop, path):
    r = json.load(open(path))
    args = r["replay"].split(" ")
    e = dict(os.environ); e.update(common.ASAN_ENV)
    return subprocess.call([exe("asan")] + args[1:], env=e)
