"""C03: condition variable wrappers over the pthread model: atomic release-and-wait, signal wakes >= 1, broadcast wakes all"""
import time
import common
from checks import mcsched

SRC = "harness/sched_c03.c"


def run(prop, tier):
    t0 = time.time()
    p = 2 if tier == "quick" else 3
    jobs = []
    bbs = [(1, 1, 2), (1, 2, 2), (2, 1, 2)] + ([(2, 2, 2), (1, 2, 3)] if tier == "thorough" else [])
    for bb in bbs:
        jobs.append(dict(src=SRC, args=["bb", "-p", p if sum(bb[:2]) < 4 else 2, "-s", 1, "--"] + list(bb)))
    for w in (2, 3):
        jobs.append(dict(src=SRC, args=["gate", "-p", p, "-s", 1, "--", w]))
        jobs.append(dict(src=SRC, args=["unlocked", "-p", p, "-s", 1, "--", w]))
        jobs.append(dict(src=SRC, args=["unlocked", "-p", p, "-s", 1, "--", w, "i"]))
    jobs.append(dict(src=SRC, args=["held", "-p", p + 1, "-s", 1]))
    jobs.append(dict(src=SRC, args=["trypub", "-p", p + 1, "-s", 1]))
    acc = mcsched.run_jobs(prop, tier, jobs)
    extra = {}
    if tier == "thorough" and not acc.viols and not acc.engine_errors:
        extra = mcsched.conformance(acc, [j for j in jobs if j["args"][0] not in ("values", "barrier")])
    cov = mcsched.coverage(acc, "stateless DFS over all interleavings with <= %d preemptions, <= 1 spurious wake-up and every choice of the waiter a signal wakes, of "
                                "producer/consumer (capacity-1 buffer, signal), gate (broadcast), token (signal after unlock / inside one critical section) and "
                                "mutex-held-on-return programs using p_cond_variable_* and PMutex over the POSIX model; oracles: multiset produced = consumed, every thread "
                                "finishes (no missed event), model contract checks (cond_wait with the caller's initialised, held mutex), mutex owner on return; "
                                "non-trivial = executions in which a thread really waited on the condition variable" % p)
    return common.finish(prop, tier, "model_checking", acc, cov, mcsched.ASSUME, t0, extra=extra)


replay = mcsched.replay
