"""C12 / C13 / C14: BFS over the complete reachable state graph of the real PTree (harness/tree_bfs.c)."""
import json, os, subprocess, time
import build, common

TREE_SRCS = ("ptree.c", "ptree-bst.c", "ptree-rb.c", "ptree-avl.c")

LEVEL = "model_checking"

RULES = {
    "C12": "sorted-map reference compared after every transition (content, identities, nnodes, remove result, every lookup, "
           "every foreach stop point, tree unchanged by read-only operations)",
    "C13": "balance invariant evaluated in every reachable state: AVL subtree heights differ <= 1; RB shape admits a red-black "
           "colouring (exact DP); height and p_tree_lookup comparator-call counts within the logarithmic bound",
    "C14": "destroy-notifier log of every transition (insert/replace/remove by children class/clear) and of free from every "
           "state must be exactly the pairs that left the tree; comparator never sees a destroyed key; canaries intact",
}


def plan(prop, tier):
    # (type, K, mode)
    if tier == "quick":
        jobs = [(t, 7, 0) for t in (0, 1, 2)]
        if prop in ("C12", "C14"):
            jobs += [(t, 5, m) for t in (0, 1, 2) for m in (1, 2)]
        if prop in ("C12", "C14"):     # one notifier only: the pair swap of a two-children removal must not depend on which notifier is set
            jobs += [(t, 5, m) for t in (0, 1, 2) for m in (3, 4)]
    else:
        jobs = [(0, 10, 0), (1, 12, 0), (2, 13, 0)]
        if prop in ("C12", "C14"):
            jobs += [(t, 7, m) for t in (0, 1, 2) for m in (1, 2)]
        if prop in ("C12", "C14"):
            jobs += [(t, 7, m) for t in (0, 1, 2) for m in (3, 4)]
    if prop == "C13":
        jobs = [j for j in jobs if j[0] != 0]
    return jobs


def exe(uchar=False):
    # the tree sources are #included into the harness, so -funsigned-char compiles *them* as on platforms where plain char is unsigned
    if uchar:
        return build.build_exe("tree_bfs_uchar", "asan", ["harness/tree_bfs.c"], exclude=TREE_SRCS, cflags=["-funsigned-char"])
    return build.build_exe("tree_bfs", "asan", ["harness/tree_bfs.c"], exclude=TREE_SRCS)


def run(prop, tier):
    t0 = time.time()
    x = exe()
    acc = common.Acc()
    jobs = plan(prop, tier)

    def one(j):
        common.run_harness(x, list(j), acc, "tree_bfs type=%d K=%d mode=%d" % j, timeout=3000, crash_prop=prop)
    common.parallel(one, jobs)
    if prop == "C13":      # same closure with plain char unsigned (ARM / PowerPC ABI): narrow balance / colour fields must not depend on char signedness
        xu = exe(True)
        common.parallel(lambda j: common.run_harness(xu, list(j), acc, "tree_bfs[unsigned-char] type=%d K=%d mode=%d" % j, timeout=3000, crash_prop=prop), [(1, 7, 0), (2, 7, 0)])
        for v in acc.viols:
            if "unsigned-char" in v.get("job", ""):
                v["sig"] += "@unsigned-char"
    from checks import indep
    indep_rule = indep.add(prop, tier, acc)
    s = acc.stats
    cov = dict(states=s.get("states", 0), transitions=s.get("transitions", 0),
               traces_validated_against_impl=s.get("canon_on_replay_checks", 0) + s.get("mutating_transitions", 0),
               evaluations=s.get("transitions", 0), distinct_nontrivial=s.get("states_with_3plus_nodes", 0),
               rule="explicit-state BFS to closure over all trees on K ordered keys, executed on the real PTree by history replay; "
                    + RULES[prop] + "; non-trivial = distinct reachable states with >= 3 nodes",
               closure_reached=True, key_universe=[dict(type=j[0], K=j[1], mode=j[2]) for j in jobs], exhaustive=True, independent_objects=indep_rule.strip('; '))
    assumptions = ["keys are compared only through the user comparator, so K distinct ranks cover all trees of <= K nodes",
                   "key/value identities are left out of the state key (the tree never branches on them); they are checked against the reference on every transition",
                   "white-box access by #including the ptree sources: a refactor of the private structs is a build error, not a silent pass"]
    return common.finish(prop, tier, LEVEL, acc, cov, assumptions, t0)


def replay(prop, path):
    r = json.load(open(path))
    args = r["replay"].split()
    x = exe()
    e = dict(os.environ); e.update(common.ASAN_ENV)
    return subprocess.call([x] + args[1:], env=e)
