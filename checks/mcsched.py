"""shared driver for checks that run harnesses under the controlled scheduler (engine/mcrt_*)"""
import json, os, subprocess, time
import build, common

ASSUME = ["scheduler is sequentially consistent; ordering is judged by the happens-before monitor (C11 semantics for __atomic as written, "
          "full barriers for __sync, release/acquire (x86-TSO) for volatile accesses of the legacy sync model)",
          "POSIX threads are modelled (mutex, condvar incl. spurious wake-ups and choice of woken waiter, rwlock, keys, create/join/exit); glibc is trusted to implement those contracts",
          "scheduling points: every pthread call, every atomic/volatile access, every fence, mc_step(); plain accesses are monitored for races instead"]


def run_jobs(prop, tier, jobs, extra_props=("SCHED", "RACE", "UAF", "POSIX", "MEM"), timeout=3000):
    """jobs: list of dict(src=harness source, atomic=, rwlock=, args=[...], name=)"""
    acc = common.Acc()
    exes = {}
    for j in jobs:
        key = (j["src"], j.get("atomic", "c11"), j.get("rwlock", "posix"), bool(j.get("ipc")), bool(j.get("ksim")))
        if key not in exes:
            exes[key] = build.build_mc_exe(os.path.basename(j["src"])[:-2], [j["src"]], atomic=key[1], rwlock=key[2],
                                           extra_plain=j.get("extra_plain", ()), extra_wraps=j.get("extra_wraps", ()), ipc=bool(j.get("ipc")), ksim=bool(j.get("ksim")))
        j["exe"] = exes[key]
        if "-D" not in [str(a) for a in j["args"]]:
            # global deadline per job: exploration stops at the deadline, the job exits 0 and reports the bound as not completed
            j["args"] = [j["args"][0], "-D", 60 if tier == "quick" else 600] + list(j["args"][1:])
        j["name"] = "%s[%s,%s] %s" % (os.path.basename(j["src"])[:-2], key[1], key[2], " ".join(map(str, j["args"])))

    def one(j):
        common.run_harness(j["exe"], j["args"], acc, j["name"], timeout=timeout, crash_prop=prop)
    common.parallel(one, jobs)
    # engine-level violations (deadlock, race, use-after-free, POSIX contract) count for the property being checked
    for v in acc.viols:
        if v.get("p") in extra_props:
            v["sig"] = "%s:%s" % (v["p"].lower(), v["sig"])
            v["p"] = prop
        # variant in the signature: the same defect in another model is another finding
        if "[" in v.get("job", ""):
            var = v["job"].split("[")[1].split("]")[0]
            v["sig"] = "%s@%s" % (v["sig"], var)
    return acc


def coverage(acc, rule):
    s = acc.stats
    return dict(states=s.get("distinct_fingerprints", 0), transitions=s.get("visible_steps", 0),
                traces_validated_against_impl=s.get("executions", 0), evaluations=s.get("executions", 0),
                distinct_nontrivial=s.get("nontrivial_executions", 0), rule=rule, exhaustive=True,
                distinct_outcomes=s.get("distinct_outcomes", 0))


def replay(prop, path):
    r = json.load(open(path))
    job = r.get("job", "")
    args = r["replay"].split()
    var = job.split("[")[1].split("]")[0].split(",") if "[" in job else ["c11", "posix"]
    src = "harness/%s.c" % args[0]
    exe = build.build_mc_exe(args[0], [src], atomic=var[0], rwlock=var[1], ipc=(args[0] == "sched_ipc"), ksim=(args[0] in ("sched_c09", "sched_c10")))
    return subprocess.call([exe] + args[1:])


def conformance(acc, jobs, runs=30):
    """POSIX-model conformance pass (thorough tier): the same harness bodies, free running on real glibc under the real
    ThreadSanitizer; every observed outcome must be one the exploration produced.  Returns statistics for the evidence;
    an outcome outside the explored set or a harness failure in free-running mode is an EngineError (model gap), TSan
    reports are only counted (non-deciding cross-check)."""
    import subprocess
    stats = dict(free_runs=0, free_distinct_outcomes=0, free_tsan_reports=0, free_jobs=0)
    env = dict(os.environ); env["TSAN_OPTIONS"] = "exitcode=66:halt_on_error=0:report_signal_unsafe=0"
    for j in jobs:
        model = acc.outcomes.get(j["name"])
        if not model:
            continue
        key = (j["src"], j.get("atomic", "c11"), j.get("rwlock", "posix"))
        exe = build.build_free_exe(os.path.basename(j["src"])[:-2], [j["src"]], atomic=key[1], rwlock=key[2])
        hargs = [str(a) for a in j["args"]]
        r = subprocess.run([exe, hargs[0], "-R", str(runs)] + hargs[1:], stdout=subprocess.PIPE, stderr=subprocess.PIPE, text=True, env=env, timeout=1200)
        seen = set()
        for ln in r.stdout.splitlines():
            if ln.startswith("OUTCOME "):
                seen.add(ln[8:]); stats["free_runs"] += 1
            elif ln.startswith("TSAN"):
                stats["free_tsan_reports"] += 1
            elif ln.startswith("FAIL"):
                raise common.EngineError("conformance pass: free-running %s failed on real glibc: %s" % (j["name"], ln[:300]))
        stats["free_tsan_reports"] += r.stderr.count("WARNING: ThreadSanitizer")
        missing = [o for o in seen if o not in model]
        if missing:
            raise common.EngineError("conformance pass: %s produced outcome(s) on real glibc that the exploration never produced: %r (explored: %r)" % (j["name"], missing[:3], model[:5]))
        stats["free_distinct_outcomes"] += len(seen); stats["free_jobs"] += 1
    return stats
