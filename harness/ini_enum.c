/* C16: INI parser.  (a) robustness: every byte string up to a length over a critical alphabet is parsed and the object
 * must be consistent; (b) grammar: every file of up to N lines over documented line kinds is compared with a reference
 * parser written from the documentation in pinifile.h.  ASan + UBSan.
 *
 * usage: ini_enum robust <L> <shard> <nshards> | grammar <N> <shard> <nshards> | long | replay <robust|grammar> <hexbytes>
 */
#define _GNU_SOURCE
#include <plibsys.h>
#include "hout.h"
#include <ctype.h>
#include <fcntl.h>
#include <sys/mman.h>
#include <unistd.h>

static int memfd; static char mempath[64];
static char curhex[8300]; static const char *MODE = "robust"; static int replay_mode;
static struct { char sig[128]; long n; } sigs[64]; static int nsigs;
static long n_eval, n_nontrivial, n_skipped;

static void viol(const char *sig, const char *fmt, ...)
{
    char buf[1500], rp[8400]; va_list ap; int i;
    va_start(ap, fmt); vsnprintf(buf, sizeof buf, fmt, ap); va_end(ap);
    if (replay_mode) printf("  !! %s: %s\n", sig, buf);
    for (i = 0; i < nsigs; i++) if (!strcmp(sigs[i].sig, sig)) { sigs[i].n++; return; }
    if (nsigs < 64) { strcpy(sigs[nsigs].sig, sig); sigs[nsigs].n = 1; nsigs++; }
    snprintf(rp, sizeof rp, "ini_enum replay %s %s", MODE, curhex);
    hout_viol("C16", sig, rp, "file (hex) %s: %s", strlen(curhex) > 400 ? "(long, see replay)" : curhex, buf);
}

static void set_content(const unsigned char *d, size_t n)
{
    size_t i;
    if (ftruncate(memfd, 0) < 0 || pwrite(memfd, d, n, 0) != (ssize_t)n) { perror("memfd write"); exit(2); }
    if (n < 4100) { for (i = 0; i < n; i++) sprintf(curhex + 2 * i, "%02x", d[i]); curhex[2 * n] = 0; } else strcpy(curhex, "toolong");
}

static void free_str_list(PList *l) { PList *c; for (c = l; c; c = c->next) p_free(c->data); p_list_free(l); }

/* consistency of whatever was parsed (robustness oracle) */
static void check_consistency(PIniFile *f)
{
    PList *secs = p_ini_file_sections(f), *s;
    for (s = secs; s; s = s->next) {
        PList *keys = p_ini_file_keys(f, s->data), *k;
        if (!keys) viol("robust/empty-section-listed", "section \"%s\" is listed but has no keys", (char *)s->data);
        for (k = keys; k; k = k->next) {
            pchar *v;
            if (!p_ini_file_is_key_exists(f, s->data, k->data)) viol("robust/listed-key-missing", "key \"%s\" of section \"%s\" is listed but is_key_exists says FALSE", (char *)k->data, (char *)s->data);
            v = p_ini_file_parameter_string(f, s->data, k->data, NULL);
            if (!v) viol("robust/listed-key-no-value", "key \"%s\" of section \"%s\" is listed but has no retrievable value", (char *)k->data, (char *)s->data);
            else p_free(v);
            (void)p_ini_file_parameter_int(f, s->data, k->data, 0); (void)p_ini_file_parameter_double(f, s->data, k->data, 0.0); (void)p_ini_file_parameter_boolean(f, s->data, k->data, FALSE);
            free_str_list(p_ini_file_parameter_list(f, s->data, k->data));
            n_nontrivial++;
        }
        free_str_list(keys);
    }
    free_str_list(secs);
}

static void run_robust(const unsigned char *d, size_t n)
{
    PIniFile *f; PError *err = NULL;
    set_content(d, n);
    n_eval++;
    f = p_ini_file_new(mempath);
    if (!p_ini_file_parse(f, &err)) { viol("robust/parse-failed", "p_ini_file_parse returned FALSE on a readable file"); if (err) p_error_free(err); }
    else check_consistency(f);
    p_ini_file_free(f);
}

/* ---------------- reference parser of the documented grammar ---------------- */
#define RMAX 8
typedef struct { char name[64]; int nk; char key[RMAX][64]; char val[RMAX][128]; } RSec;
typedef struct { int ns; RSec s[RMAX]; int repeated_section; } RFile;
static char *rstrip(char *s) { char *e; while (*s && isspace((unsigned char)*s)) s++; e = s + strlen(s); while (e > s && isspace((unsigned char)e[-1])) *--e = 0; return s; }
static void ref_parse(const char *text, RFile *r)
{
    char *copy = strdup(text), *line, *save; RSec *cur = NULL; int first = 1;
    memset(r, 0, sizeof *r);
    for (line = strtok_r(copy, "\n", &save); line; line = strtok_r(NULL, "\n", &save)) {
        char *l = line, *eq, *k, *v;
        first = 0;        /* (a byte-order mark is taken off by the caller) */
        l = rstrip(l);
        if (!*l || *l == '#' || *l == ';') continue;                    /* blank / comment line */
        if (*l == '[' && l[strlen(l) - 1] == ']') {
            int i; char *nm; l[strlen(l) - 1] = 0; nm = rstrip(l + 1);
            for (i = 0; i < r->ns; i++) if (!strcmp(r->s[i].name, nm)) r->repeated_section = 1;
            if (!*nm) r->repeated_section = 1;           /* blank section name: not documented, not judged */
            cur = &r->s[r->ns++]; strcpy(cur->name, nm); cur->nk = 0; continue;
        }
        eq = strchr(l, '='); if (!eq) continue;
        *eq = 0; k = rstrip(l); v = rstrip(eq + 1);
        if (*v == '"' && strchr(v + 1, '"')) { v++; *strchr(v, '"') = 0; }
        else if (*v == '\'' && strchr(v + 1, '\'')) { v++; *strchr(v, '\'') = 0; }
        else { v[strcspn(v, ";#")] = 0; v = rstrip(v); }
        if (!cur || !*k) continue;
        { int i; for (i = 0; i < cur->nk; i++) if (!strcmp(cur->key[i], k)) break; if (i == cur->nk) { cur->nk++; strcpy(cur->key[i], k); } strcpy(cur->val[i], v); }   /* last assignment wins */
    }
    free(copy);
}
static int ref_bool(const char *v) { if (!strcmp(v, "true") || !strcmp(v, "TRUE")) return 1; if (!strcmp(v, "false") || !strcmp(v, "FALSE")) return 0; return atoi(v) > 0; }

/* byte-order marks the documentation says are skipped: none, UTF-8, UTF-16 BE / LE, UTF-32 BE / LE */
static const unsigned char BOMS[6][4] = {{0}, {0xEF, 0xBB, 0xBF}, {0xFE, 0xFF}, {0xFF, 0xFE}, {0x00, 0x00, 0xFE, 0xFF}, {0xFF, 0xFE, 0x00, 0x00}};
static const int BOMLEN[6] = {0, 3, 2, 2, 4, 4};
static int bom_of(const unsigned char *d, size_t n) { int b; for (b = 5; b >= 1; b--) if (n >= (size_t)BOMLEN[b] && !memcmp(d, BOMS[b], BOMLEN[b]) && !(b == 3 && n >= 4 && !memcmp(d, BOMS[5], 4))) return b; return 0; }
static void run_grammar_bom(const char *text, size_t n, int bom)
{
    PIniFile *f; RFile r; int i, j, nsec = 0; PList *secs, *s;
    { static unsigned char file[8600]; memcpy(file, BOMS[bom], BOMLEN[bom]); memcpy(file + BOMLEN[bom], text, n); set_content(file, n + BOMLEN[bom]); }
    n_eval++;
    ref_parse(text, &r);
    f = p_ini_file_new(mempath);
    if (!p_ini_file_parse(f, NULL)) { viol("grammar/parse-failed", "p_ini_file_parse returned FALSE"); p_ini_file_free(f); return; }
    check_consistency(f);
    if (r.repeated_section) { n_skipped++; p_ini_file_free(f); return; }      /* merging of repeated section names is not documented: not judged */
    for (i = 0; i < r.ns; i++) if (r.s[i].nk) nsec++;
    secs = p_ini_file_sections(f);
    if ((int)p_list_length(secs) != nsec) viol("grammar/section-count", "%d sections reported, the documented grammar gives %d non-empty sections", (int)p_list_length(secs), nsec);
    for (s = secs; s; s = s->next) { for (i = 0; i < r.ns; i++) if (r.s[i].nk && !strcmp(r.s[i].name, s->data)) break; if (i == r.ns) viol("grammar/unexpected-section", "section \"%s\" reported but not defined by the file", (char *)s->data); }
    free_str_list(secs);
    for (i = 0; i < r.ns; i++) {
        RSec *rs = &r.s[i]; PList *keys, *k;
        if (!rs->nk) { if (p_ini_file_keys(f, rs->name)) viol("grammar/empty-section-reported", "section \"%s\" has no keys but is reported", rs->name); continue; }
        keys = p_ini_file_keys(f, rs->name);
        {   /* every defined key must be listed; a repeated key may be listed once per assignment (the property does not say otherwise) */
            for (j = 0; j < rs->nk; j++) { for (k = keys; k; k = k->next) if (!strcmp(rs->key[j], k->data)) break; if (!k) viol("grammar/key-not-listed", "section \"%s\": key \"%s\" is defined by the file but not listed", rs->name, rs->key[j]); }
        }
        for (k = keys; k; k = k->next) { for (j = 0; j < rs->nk; j++) if (!strcmp(rs->key[j], k->data)) break; if (j == rs->nk) { char sg[96]; snprintf(sg, sizeof sg, "grammar/unexpected-key%s", (((char *)k->data)[0] == '#' || ((char *)k->data)[0] == ';') ? "/from-comment-line" : ""); viol(sg, "section \"%s\": key \"%s\" reported but not defined by the file", rs->name, (char *)k->data); } }
        free_str_list(keys);
        for (j = 0; j < rs->nk; j++) {
            pchar *v = p_ini_file_parameter_string(f, rs->name, rs->key[j], "DEFAULT");
            n_nontrivial++;
            if (!v || strcmp(v, rs->val[j])) viol("grammar/value", "[%s] %s = \"%s\", documented grammar gives \"%s\"", rs->name, rs->key[j], v ? v : "(null)", rs->val[j]);
            if (v) p_free(v);
            if (p_ini_file_parameter_int(f, rs->name, rs->key[j], -77) != atoi(rs->val[j])) viol("grammar/int", "[%s] %s int getter gives %d for \"%s\"", rs->name, rs->key[j], p_ini_file_parameter_int(f, rs->name, rs->key[j], -77), rs->val[j]);
            if (p_ini_file_parameter_double(f, rs->name, rs->key[j], -77.0) != strtod(rs->val[j], NULL)) viol("grammar/double", "[%s] %s double getter gives %g for \"%s\"", rs->name, rs->key[j], p_ini_file_parameter_double(f, rs->name, rs->key[j], -77.0), rs->val[j]);
            if ((p_ini_file_parameter_boolean(f, rs->name, rs->key[j], FALSE) == TRUE) != ref_bool(rs->val[j])) viol("grammar/boolean", "[%s] %s boolean getter wrong for \"%s\"", rs->name, rs->key[j], rs->val[j]);
            {   /* list getter */
                const char *val = rs->val[j]; size_t len = strlen(val); PList *l = p_ini_file_parameter_list(f, rs->name, rs->key[j]), *c; char tmp[128], *tok, *sv; int nt = 0, bad = 0;
                if (len >= 3 && val[0] == '{' && val[len - 1] == '}') {
                    strcpy(tmp, val + 1); tmp[len - 2] = 0; c = l;
                    for (tok = strtok_r(tmp, " \t", &sv); tok; tok = strtok_r(NULL, " \t", &sv)) { nt++; if (!c || strcmp(c->data, tok)) bad = 1; if (c) c = c->next; }
                    if (bad || c || (int)p_list_length(l) != nt) viol("grammar/list", "[%s] %s list getter returned %d elements for \"%s\" (expected %d, in order)", rs->name, rs->key[j], (int)p_list_length(l), val, nt);
                } else if (l) viol("grammar/list", "[%s] %s list getter returned a list for the non-list value \"%s\"", rs->name, rs->key[j], val);
                free_str_list(l);
            }
        }
        /* defaults for missing keys */
        if (p_ini_file_parameter_int(f, rs->name, "nokey", 41) != 41 || p_ini_file_parameter_double(f, rs->name, "nokey", 4.5) != 4.5 || p_ini_file_parameter_boolean(f, rs->name, "nokey", TRUE) != TRUE || p_ini_file_parameter_list(f, rs->name, "nokey") != NULL)
            viol("grammar/default", "getter did not fall back to the default for a missing key in section \"%s\"", rs->name);
        { pchar *d = p_ini_file_parameter_string(f, rs->name, "nokey", "dflt"); if (!d || strcmp(d, "dflt")) viol("grammar/default", "string getter did not return the default for a missing key"); if (d) p_free(d); }
    }
    if (p_ini_file_parameter_int(f, "nosection", "k", 17) != 17 || p_ini_file_is_key_exists(f, "nosection", "k")) viol("grammar/default", "missing section not handled");
    p_ini_file_free(f);
}

static void run_grammar(const char *text, size_t n) { int b = bom_of((const unsigned char *)text, n); run_grammar_bom(text + BOMLEN[b], n - BOMLEN[b], b); }      /* content that may start with a mark (replay, long lines) */

static const char *KINDS[] = {
    "", "# c", "; c = 1", "#k=1", "[s]", "[ t ]", "k=v", "k = w", "q = \"v;#\"", "q = 'v #'", "k = v ; c", "k = v=w", "k = \"\"", "q = {a b  c}",
    "k = 12", "q = -3.5e2", "k = TRUE", "q = false", "k = 1", "  k  =  v2  ", "q = v # c", "k = {x}", "q = 0",
    "k = \"\" ; c", "q = '' # c",                      /* empty quotes followed by a blank and a comment */
    "q = {100 20 3}", "k = {ab c defg h}",
    "  # k = 1", "\t; q = 2",                         /* comment lines that are indented */
    "k = Jos\xc3\xa9", "[\xc3\x9cber]", "\xc3\xa9q = \xe4\xb8\xad",     /* bytes >= 0x80 at the edges of a value, a section name, a key (UTF-8 text is not blank space) */             /* list items that get shorter / longer from one to the next */
    "[ ]", "[]",        /* blank section names: behaviour not documented -> robustness only */
};
#define NK ((int)(sizeof KINDS / sizeof KINDS[0]))

int main(int argc, char **argv)
{
    static const unsigned char SIG[] = {'[', ']', '=', '"', '\'', ';', '#', ' ', 'a', '\n', 0, 0xEF, 0xBB, 0xBF, 0xFF, 0xFE, '{', '}'};
    int i;
    if (argc < 2) return 2;
    hout_open(); p_libsys_init();
    memfd = memfd_create("vf_ini", 0); snprintf(mempath, sizeof mempath, "/proc/self/fd/%d", memfd);
    MODE = argv[1];
    if (!strcmp(MODE, "robust")) {
        int L = atoi(argv[2]), shard = atoi(argv[3]), ns = atoi(argv[4]), len; long code, total, idx = 0;
        for (len = 0; len <= L; len++) {
            total = 1; for (i = 0; i < len; i++) total *= 18;
            for (code = 0; code < total; code++, idx++) {
                unsigned char b[16]; long c = code;
                if (idx % ns != shard) continue;
                for (i = 0; i < len; i++) { b[i] = SIG[c % 18]; c /= 18; }
                if ((idx & 0x3ff) == (long)shard) hout_progress("sig=robust/crash ini_enum replay robust (near index %ld of length %d)", idx, len);
                run_robust(b, len);
            }
        }
    } else if (!strcmp(MODE, "grammar")) {
        int N = atoi(argv[2]), shard = atoi(argv[3]), ns = atoi(argv[4]), n, bom; long code, total, idx = 0;
        for (n = 1; n <= N; n++) {
            total = 1; for (i = 0; i < n; i++) total *= NK;
            for (code = 0; code < total; code++) for (bom = 0; bom < (n <= 2 ? 6 : 2); bom++, idx++) {
                char text[512]; size_t o = 0; long c = code;
                if (idx % ns != shard) continue;
                for (i = 0; i < n; i++) { o += snprintf(text + o, sizeof text - o, "%s\n", KINDS[c % NK]); c /= NK; }
                hout_progress("sig=grammar/crash ini_enum replay grammar (index %ld)", idx);
                run_grammar_bom(text, o, bom);
            }
        }
        {   /* every file of up to 3 sections named s or t, each with the key lines k / q / k,q / q,k: repeated section names with different keys
             * (the merge is not documented and not judged, but what is listed must exist and be retrievable) */
            static const char *NAMES[2] = {"s", "t"}; static const char *KEYS[4] = {"k = 1\n", "q = 2\n", "k = 1\nq = 2\n", "q = 3\nk = 4\n"};
            int nsec; long c2, tot;
            if (shard == 0) for (nsec = 1; nsec <= 3; nsec++) {
                tot = 1; for (i = 0; i < nsec; i++) tot *= 8;
                for (c2 = 0; c2 < tot; c2++) { char text[256]; size_t o = 0; long c = c2; for (i = 0; i < nsec; i++) { o += snprintf(text + o, sizeof text - o, "[%s]\n%s", NAMES[c & 1], KEYS[(c >> 1) & 3]); c >>= 3; } hout_progress("sig=grammar/crash ini_enum replay grammar (sections %ld)", c2); run_grammar_bom(text, o, 0); }
            }
        }
    } else if (!strcmp(MODE, "long")) {
        /* lines around the 1024-byte limit: documented behaviour is judged up to the limit, beyond it only robustness */
        static const char *SHAPES[] = {"[s]\nk = %s\n", "[s]\nk = \"%s\"\n", "[s]\n%s = v\n", "[%s]\nk = v\n", "[s]\nk = v ; %s\n", "[s]\n# %s = 1\nq = 2\n", "[s]\nk = {%s a}\n"};
        int sh, len;
        for (sh = 0; sh < 7; sh++) for (len = 1000; len <= 2060; len++) {
            static char fill[2100], text[4400]; size_t n; int maxline;
            if (len > 1040 && len < 2040) continue;
            memset(fill, 'x', len); fill[len] = 0;
            n = snprintf(text, sizeof text, SHAPES[sh], fill);
            maxline = len + (int)strlen(SHAPES[sh]);          /* upper bound of the longest line */
            hout_progress("sig=long/crash ini_enum long shape %d len %d", sh, len);
            MODE = "grammar";
            if (maxline <= 1020 && len < 120) run_grammar(text, n); else { MODE = "robust"; run_robust((unsigned char *)text, n); }
        }
        MODE = "long";
    } else if (!strcmp(MODE, "replay")) {
        static unsigned char b[4200]; size_t n = 0; const char *h = argc > 3 ? argv[3] : ""; unsigned v;
        replay_mode = 1; MODE = argv[2];
        while (h[0] && h[1] && n < sizeof b - 1) { sscanf(h, "%2x", &v); b[n++] = (unsigned char)v; h += 2; }
        b[n] = 0;
        if (!strcmp(MODE, "grammar")) run_grammar((char *)b, n); else run_robust(b, n);
        printf("replay finished: %ld violation report(s)\n", hout_nviol);
        return hout_nviol ? 1 : 0;
    } else return 2;
    hout_stat("evaluations", n_eval); hout_stat("nontrivial", n_nontrivial); hout_stat("grammar_files_not_judged_repeated_section", n_skipped);
    { char k[64]; snprintf(k, sizeof k, "evaluations_%s", argv[1]); hout_stat(k, n_eval); }
    hout_sample("%s: last file (hex) %s", argv[1], strlen(curhex) < 300 ? curhex : "(long)");
    for (i = 0; i < nsigs; i++) hout_note("signature %s occurred %ld time(s)", sigs[i].sig, sigs[i].n);
    return hout_nviol ? 1 : 0;
}
