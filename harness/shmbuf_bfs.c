/* C08 (sequential part): complete reachable (read_pos, write_pos) graph of the real PShmBuffer for capacity S,
 * every length 0..S+1, two handles of one name (second opened with an equal / larger / smaller size argument),
 * against a byte-deque reference.  Caller buffers are exact-size heap blocks (ASan).
 *
 * usage: shmbuf_bfs <S> <mode 0 equal|1 larger|2 smaller> [--replay ops]
 * ops: w<h>.<len>  r<h>.<len>  c<h>   (h = 1|2), comma separated
 */
#include "pshmbuffer.c"
#include <plibsys.h>
#include "hout.h"
#include <unistd.h>

extern int ipcnames_live(char *buf, size_t sz);

static int S, MODE, S2;
static const char *MN[] = {"equal", "larger", "smaller"};
static char name[64], other_name[64];      /* both 51 characters long (the decorated name is then exactly one 64-byte block of the key hash), different in the last character */
static int replay_mode, fail_flag;
static char cur_hist[1024];
static struct { char sig[128]; long n; } sigs[128]; static int nsigs;

static void viol(const char *sig, const char *fmt, ...)
{
    char buf[2048], full[160], rp[1200]; va_list ap; int i;
    va_start(ap, fmt); vsnprintf(buf, sizeof buf, fmt, ap); va_end(ap);
    fail_flag = 1;
    snprintf(full, sizeof full, "seq/%s/%s", MN[MODE], sig);
    if (replay_mode) printf("  !! %s: %s\n", full, buf);
    for (i = 0; i < nsigs; i++) if (!strcmp(sigs[i].sig, full)) { sigs[i].n++; return; }
    if (nsigs < 128) { strcpy(sigs[nsigs].sig, full); sigs[nsigs].n = 1; nsigs++; }
    snprintf(rp, sizeof rp, "shmbuf_bfs %d %d --replay %s", S, MODE, cur_hist);
    hout_viol("C08", full, rp, "capacity %d, second handle opened with size %d, history [%s]: %s", S, S2, cur_hist, buf);
}

typedef struct { unsigned char kind, h; unsigned short len; } Op;   /* kind 0 write 1 read 2 clear */
typedef struct { int n; unsigned char b[64]; unsigned char next; } Deq;

static PShmBuffer *H[3], *OTHER;           /* OTHER: a buffer under another name that nobody touches: it must stay empty */
static unsigned char *raw; static size_t rawsz;

static void open_all(void)
{
    PError *err = NULL;
    H[1] = p_shm_buffer_new(name, S, &err);
    if (!H[1]) { viol("new-failed/first-handle", "p_shm_buffer_new on a fresh, unique name failed: %s", err ? p_error_get_message(err) : "?"); exit(1); }
    H[2] = p_shm_buffer_new(name, S2, &err);
    if (!H[2]) { viol("new-failed/second-handle", "a second p_shm_buffer_new on the name of an existing buffer failed"); exit(1); }
    raw = p_shm_get_address(H[1]->shm);
    OTHER = p_shm_buffer_new(other_name, S, NULL);
    if (!OTHER) { viol("new-failed/other-name", "p_shm_buffer_new on a second fresh name failed while the first buffer exists"); exit(1); }
}
static void close_all(void)
{
    p_shm_buffer_take_ownership(H[1]);
    p_shm_buffer_free(H[2]); p_shm_buffer_free(H[1]);
    if (OTHER) { p_shm_buffer_take_ownership(OTHER); p_shm_buffer_free(OTHER); OTHER = NULL; }
    H[1] = H[2] = NULL;
}
static void get_pos(size_t *rp, size_t *wp) { memcpy(rp, raw, sizeof *rp); memcpy(wp, raw + sizeof(size_t), sizeof *wp); }

static long n_trans, n_queries, n_wrap_reads, n_wrap_writes, n_full_rejects;

static void check_spaces(const Deq *d, const char *opk)
{
    int h; char s[64];
    if (OTHER && p_shm_buffer_get_used_space(OTHER, NULL) != 0) { snprintf(s, sizeof s, "other-name-affected/%s", opk); viol(s, "a buffer with a different name, which nobody has written to, reports %ld used bytes", (long)p_shm_buffer_get_used_space(OTHER, NULL)); }
    for (h = 1; h <= 2; h++) {
        pssize u = p_shm_buffer_get_used_space(H[h], NULL), f = p_shm_buffer_get_free_space(H[h], NULL);
        n_queries += 2;
        if (u != d->n) { snprintf(s, sizeof s, "used-space/%s", opk); viol(s, "handle %d reports used space %ld, reference queue holds %d bytes", h, (long)u, d->n); }
        if (u + f != S) { snprintf(s, sizeof s, "used-plus-free/%s", opk); viol(s, "handle %d: used %ld + free %ld != capacity %d", h, (long)u, (long)f, S); }
    }
}

/* lengths S+2 .. S+5 of the alphabet stand for lengths near the top of the psize range (no data behind them: the call must refuse / clamp before touching it) */
#define NHUGE 4
static size_t real_len(int len) { static const size_t HUGE_LEN[NHUGE] = {(size_t)-1, (size_t)-5, ((size_t)1 << 32) + 3, ((size_t)-1 >> 1) + 1}; return len > S + 1 ? HUGE_LEN[len - S - 2] : (size_t)len; }
static void apply(Deq *d, Op op, int check)
{
    char s[64];
    if (op.kind == 0 && op.len > S + 1) {
        unsigned char small[8] = {1, 2, 3, 4, 5, 6, 7, 8}; pssize r = p_shm_buffer_write(H[op.h], small, real_len(op.len), NULL);
        if (check && r != 0) viol("write-too-long/result", "write of %zu bytes with only %d free returned %ld (must append nothing and return 0)", real_len(op.len), S - d->n, (long)r);
        n_full_rejects++;
        if (check) check_spaces(d, "write");
    } else if (op.kind == 1 && op.len > S + 1) {
        unsigned char *buf = malloc(S + 8); int want = d->n, i; pint r;
        memset(buf, 0xEE, S + 8);
        r = p_shm_buffer_read(H[op.h], buf, real_len(op.len), NULL);
        if (check && r != want) viol("read/result", "read(len %zu) with %d bytes queued returned %d, expected %d", real_len(op.len), d->n, r, want);
        else if (check) for (i = 0; i < want; i++) if (buf[i] != d->b[i]) { viol("read/data", "read returned byte %d = %u, FIFO order requires %u", i, buf[i], d->b[i]); break; }
        if (check) for (i = want; i < S + 8; i++) if (buf[i] != 0xEE) { viol("read/overwrite", "read wrote beyond the %d bytes it returned", want); break; }
        d->n = 0;
        free(buf);
        if (check) check_spaces(d, "read");
    } else if (op.kind == 0) {
        unsigned char *buf = malloc(op.len ? op.len : 1); int i; pssize r; size_t rp, wp;
        for (i = 0; i < op.len; i++) { buf[i] = d->next; d->next = d->next == 250 ? 1 : d->next + 1; }
        get_pos(&rp, &wp);
        r = p_shm_buffer_write(H[op.h], buf, op.len, NULL);
        if (op.len == 0) { /* result for a zero-length write is not defined by the property (the code rejects it): only "nothing changes" is checked */ }
        else if (op.len <= S - d->n) {
            if (check && r != op.len) { viol("write-fits/result", "write of %d bytes with %d free returned %ld", op.len, S - d->n, (long)r); }
            for (i = 0; i < op.len; i++) d->b[d->n++] = buf[i];
            if (wp + op.len > (size_t)S + 1) n_wrap_writes++;
        } else {
            if (check && r != 0) viol("write-too-long/result", "write of %d bytes with only %d free returned %ld (must append nothing and return 0)", op.len, S - d->n, (long)r);
            n_full_rejects++;
        }
        free(buf);
        if (check) check_spaces(d, "write");
    } else if (op.kind == 1) {
        unsigned char *buf = malloc(op.len ? op.len : 1); int want = op.len < d->n ? op.len : d->n, i; pint r; size_t rp, wp;
        get_pos(&rp, &wp);
        memset(buf, 0xEE, op.len ? op.len : 1);
        r = p_shm_buffer_read(H[op.h], buf, op.len, NULL);
        if (op.len != 0) {
            if (check && r != want) viol("read/result", "read(len %d) with %d bytes queued returned %d, expected %d", op.len, d->n, r, want);
            else if (check) for (i = 0; i < want; i++) if (buf[i] != d->b[i]) { viol("read/data", "read returned byte %d = %u, FIFO order requires %u", i, buf[i], d->b[i]); break; }
            if (check) for (i = want; i < op.len; i++) if (buf[i] != 0xEE) { viol("read/overwrite", "read wrote beyond the %d bytes it returned", want); break; }
            memmove(d->b, d->b + want, d->n - want); d->n -= want;
            if (want && rp + want > (size_t)S + 1) n_wrap_reads++;
        }
        free(buf);
        if (check) check_spaces(d, "read");
    } else {
        p_shm_buffer_clear(H[op.h]);
        d->n = 0;
        if (check) check_spaces(d, "clear");
    }
    (void)s;
}

static void hist_text(const Op *h, int n, char *buf, size_t sz)
{
    size_t o = 0; int i; buf[0] = 0;
    for (i = 0; i < n && o + 12 < sz; i++) {
        if (h[i].kind == 2) o += snprintf(buf + o, sz - o, "%sc%d", i ? "," : "", h[i].h);
        else o += snprintf(buf + o, sz - o, "%s%c%d.%d", i ? "," : "", h[i].kind ? 'r' : 'w', h[i].h, h[i].len);
    }
}

typedef struct { size_t rp, wp; int parent; Op op; int depth; } State;
static State st[4096]; static int nst;
static int st_find(size_t rp, size_t wp) { int i; for (i = 0; i < nst; i++) if (st[i].rp == rp && st[i].wp == wp) return i; return -1; }
static int hist_of(int s, Op *out) { int n = st[s].depth, i = n; while (s > 0) { out[--i] = st[s].op; s = st[s].parent; } return n; }

static void rebuild(const Op *h, int n, Deq *d)
{
    int i;
    open_all();
    d->n = 0; d->next = 1;
    for (i = 0; i < n; i++) apply(d, h[i], 0);
}

static int do_replay(const char *ops)
{
    Op h[128]; int n = 0, i; Deq d; const char *p = ops;
    replay_mode = 1;
    while (*p && n < 128) {
        h[n].kind = *p == 'w' ? 0 : *p == 'r' ? 1 : 2; p++;
        h[n].h = (unsigned char)strtol(p, (char **)&p, 10); h[n].len = 0;
        if (*p == '.') { p++; h[n].len = (unsigned short)strtol(p, (char **)&p, 10); }
        n++; if (*p == ',') p++;
    }
    strncpy(cur_hist, ops, sizeof cur_hist - 1);
    open_all(); d.n = 0; d.next = 1;
    check_spaces(&d, "open");
    for (i = 0; i < n; i++) {
        size_t rp, wp;
        apply(&d, h[i], 1); get_pos(&rp, &wp);
        printf("step %d: %c handle %d len %d -> read_pos %zu write_pos %zu, reference queue %d bytes\n", i + 1, "wrc"[h[i].kind], h[i].h, h[i].len, rp, wp, d.n);
    }
    close_all();
    printf("replay finished: %ld violation report(s)\n", hout_nviol);
    return hout_nviol ? 1 : 0;
}

/* capacities around a page boundary (S + 16 bytes of header = a whole number of pages, one less, one more): too many lengths for the closure, so one directed
 * script per capacity that sends every ring index through both handles: fill to the brim, drain, then records that wrap at every offset of a 7-step cycle */
static int big_script(void)
{
    static unsigned char ref[20000], tmp[20000]; int rn = 0, step, i; unsigned char nextb = 1; pssize r;
    open_all();
    snprintf(cur_hist, sizeof cur_hist, "page-script");
    hout_progress("sig=seq/%s/page-script shmbuf_bfs %d %d", MN[MODE], S, MODE);
    for (step = 0; step < 40 && !fail_flag; step++) {
        int wl = step == 0 ? S : step == 1 ? S + 1 : 1 + (step * 977) % (S > 100 ? S - 40 : S), h = 1 + step % 2, rl;
        for (i = 0; i < wl; i++) { tmp[i] = nextb; nextb = nextb == 250 ? 1 : nextb + 1; }
        r = p_shm_buffer_write(H[h], tmp, wl, NULL);
        if (wl <= S - rn) { if (r != wl) { viol("page/write-fits/result", "capacity %d: write of %d bytes with %d free returned %ld", S, wl, S - rn, (long)r); break; } memcpy(ref + rn, tmp, wl); rn += wl; }
        else { if (r != 0) { viol("page/write-too-long/result", "capacity %d: write of %d bytes with %d free returned %ld", S, wl, S - rn, (long)r); break; } nextb = tmp[0]; }
        if (p_shm_buffer_get_used_space(H[3 - h], NULL) != rn) { viol("page/used-space", "capacity %d: used space %ld through the other handle, reference %d", S, (long)p_shm_buffer_get_used_space(H[3 - h], NULL), rn); break; }
        rl = step % 3 == 0 ? rn : (rn * 2) / 3;
        if (rl == 0) continue;                 /* the result of a zero-length read is not defined by the property */
        memset(tmp, 0xEE, sizeof tmp);
        r = p_shm_buffer_read(H[3 - h], tmp, rl, NULL);
        if (r != rl || memcmp(tmp, ref, rl)) { viol("page/read", "capacity %d: read of %d bytes through the other handle returned %ld or bytes out of FIFO order", S, rl, (long)r); break; }
        memmove(ref, ref + rl, rn - rl); rn -= rl; n_trans += 2;
    }
    close_all();
    hout_stat("states", 1); hout_stat("transitions", n_trans); hout_stat("mutating_transitions", n_trans); hout_stat("nontrivial", n_trans);
    return hout_nviol ? 1 : 0;
}

int main(int argc, char **argv)
{
    int s; Op z = {0, 0, 0}; long canon_checks = 0; int maxd = 0; char live[512];
    if (argc < 3) return 2;
    S = atoi(argv[1]); MODE = atoi(argv[2]);
    S2 = MODE == 0 ? S : MODE == 1 ? S + 3 : (S - 2 > 1 ? S - 2 : 1);
    if (S > 60 && (S > 16000 || MODE == 2)) return 2;
    hout_open(); p_libsys_init();
    { int n = snprintf(name, sizeof name, "vf08_%d_%d_%d_", (int)getpid(), S, MODE); while (n < 50) name[n++] = 'x'; name[50] = 'A'; name[51] = 0; strcpy(other_name, name); other_name[50] = 'B'; }
    if (S > 60) return big_script();
    if (argc >= 5 && !strcmp(argv[3], "--replay")) return do_replay(argv[4]);

    st[0].rp = 0; st[0].wp = 0; st[0].parent = -1; st[0].op = z; st[0].depth = 0; nst = 1;
    for (s = 0; s < nst; s++) {
        Op h[64]; int n = hist_of(s, h), kind, hh, len; Deq d; size_t rp, wp;
        for (kind = 0; kind < 3; kind++) for (hh = 1; hh <= 2; hh++) for (len = 0; len <= (kind == 2 ? 0 : S + 1 + NHUGE); len++) {
            Op op; int ns;
            op.kind = kind; op.h = hh; op.len = len;
            rebuild(h, n, &d);
            get_pos(&rp, &wp);
            if (rp != st[s].rp || wp != st[s].wp) {       /* never seen on a correct tree: the state of the buffer is a function of the calls made on it */
                hist_text(h, n, cur_hist, sizeof cur_hist);
                viol("state-not-determined-by-history", "the same history run a second time left read/write positions %zu/%zu instead of %zu/%zu: something other than the calls on this buffer changes it", rp, wp, st[s].rp, st[s].wp);
                close_all(); goto done;
            }
            canon_checks++;
            h[n] = op; hist_text(h, n + 1, cur_hist, sizeof cur_hist);
            hout_progress("sig=seq/%s/%s shmbuf_bfs %d %d --replay %s", MN[MODE], kind == 0 ? "write" : kind == 1 ? "read" : "clear", S, MODE, cur_hist);
            fail_flag = 0;
            if (n == 0 && kind == 0 && hh == 1 && len == 0) check_spaces(&d, "open");
            apply(&d, op, 1); n_trans++;
            get_pos(&rp, &wp);
            if (!fail_flag && (ns = st_find(rp, wp)) < 0) {
                if (nst >= 4096 || n + 1 >= 60) { fprintf(stderr, "state table full\n"); return 2; }
                st[nst].rp = rp; st[nst].wp = wp; st[nst].parent = s; st[nst].op = op; st[nst].depth = n + 1; nst++;
            }
            close_all();
            if (ipcnames_live(live, sizeof live) != 0) { viol("names-left", "IPC names still exist after the owner freed the buffer: %s", live); }
        }
    }
done:
    for (s = 0; s < nst; s++) if (st[s].depth > maxd) maxd = st[s].depth;
    hout_stat("states", nst); hout_stat("transitions", n_trans + n_queries); hout_stat("mutating_transitions", n_trans);
    hout_stat("space_queries", n_queries); hout_stat("canon_on_replay_checks", canon_checks); hout_stat("max_depth", maxd);
    hout_stat("wrapping_writes", n_wrap_writes); hout_stat("wrapping_reads", n_wrap_reads); hout_stat("rejected_writes", n_full_rejects);
    { char k[64]; snprintf(k, sizeof k, "states_S%d_%s", S, MN[MODE]); hout_stat(k, nst); }
    hout_stat("nontrivial", n_wrap_writes + n_wrap_reads);
    if (nst > 1) { Op h[64]; char hb[512]; int n = hist_of(nst - 1, h); hist_text(h, n, hb, sizeof hb); hout_sample("S=%d second-handle size %d: state (read_pos %zu, write_pos %zu) reached by [%s]", S, S2, st[nst - 1].rp, st[nst - 1].wp, hb); }
    for (s = 0; s < nsigs; s++) hout_note("signature %s occurred %ld time(s)", sigs[s].sig, sigs[s].n);
    return hout_nviol ? 1 : 0;
}
