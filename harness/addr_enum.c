/* C17: bounded-exhaustive enumeration of socket-address conversions against the platform (inet_pton / inet_ntop /
 * getaddrinfo).  Caller buffers are exact-size heap blocks so that ASan sees any access beyond them.
 *
 * usage: addr_enum v4class | ports | v6 | strings <maxlen> <shard> <nshards> | lengths | v4all <shard> <nshards> | replay <what> <arg>
 */
#define _GNU_SOURCE
#include <plibsys.h>
#include "hout.h"
#include <arpa/inet.h>
#include <netdb.h>
#include <netinet/in.h>
#include <stdint.h>
#include <sys/socket.h>

static char cur[256]; static int replay_mode; static const char *MODE = "?";
static struct { char sig[128]; long n; } sigs[64]; static int nsigs;
static long n_eval, n_nontrivial;

static void viol(const char *sig, const char *fmt, ...)
{
    char buf[1500], rp[400]; va_list ap; int i;
    va_start(ap, fmt); vsnprintf(buf, sizeof buf, fmt, ap); va_end(ap);
    if (replay_mode) printf("  !! %s: %s\n", sig, buf);
    for (i = 0; i < nsigs; i++) if (!strcmp(sigs[i].sig, sig)) { sigs[i].n++; return; }
    if (nsigs < 64) { strcpy(sigs[nsigs].sig, sig); sigs[nsigs].n = 1; nsigs++; }
    snprintf(rp, sizeof rp, "addr_enum replay %s", cur);
    hout_viol("C17", sig, rp, "[%s] %s", cur, buf);
}

static void *exact_copy(const void *src, size_t n) { void *p = malloc(n ? n : 1); if (n) memcpy(p, src, n); return p; }

/* ---------- one IPv4 address ---------- */
static void check_v4(uint32_t host_order, uint16_t port, int with_text)
{
    struct sockaddr_in sin, *nat, *out; PSocketAddress *a; char ref[INET_ADDRSTRLEN]; pchar *txt;
    memset(&sin, 0, sizeof sin); sin.sin_family = AF_INET; sin.sin_port = htons(port); sin.sin_addr.s_addr = htonl(host_order);
    inet_ntop(AF_INET, &sin.sin_addr, ref, sizeof ref);
    if (!replay_mode && with_text >= 0) { snprintf(cur, sizeof cur, "v4 %u %u", host_order, port); }
    n_eval++;
    nat = exact_copy(&sin, sizeof sin);
    a = p_socket_address_new_from_native(nat, sizeof sin);
    free(nat);
    if (!a) { viol("v4/from-native-failed", "new_from_native failed for %s:%u", ref, port); return; }
    if (p_socket_address_get_family(a) != P_SOCKET_FAMILY_INET) viol("v4/family", "family %d for %s", (int)p_socket_address_get_family(a), ref);
    if (p_socket_address_get_port(a) != port) viol("v4/port", "port %u, expected %u", p_socket_address_get_port(a), port);
    if (p_socket_address_get_native_size(a) != sizeof(struct sockaddr_in)) viol("v4/native-size", "native size %lu", (unsigned long)p_socket_address_get_native_size(a));
    if ((p_socket_address_is_any(a) == TRUE) != (host_order == 0)) viol("v4/is_any", "is_any = %d for %s", (int)p_socket_address_is_any(a), ref);
    if ((p_socket_address_is_loopback(a) == TRUE) != ((host_order >> 24) == 127)) viol("v4/is_loopback", "is_loopback = %d for %s", (int)p_socket_address_is_loopback(a), ref);
    txt = p_socket_address_get_address(a);
    if (!txt || strcmp(txt, ref)) viol("v4/text", "get_address = \"%s\", inet_ntop says \"%s\"", txt ? txt : "(null)", ref);
    out = malloc(sizeof *out); memset(out, 0xA5, sizeof *out);
    if (!p_socket_address_to_native(a, out, sizeof *out)) viol("v4/to-native-failed", "to_native failed for %s", ref);
    else if (out->sin_family != AF_INET || out->sin_port != sin.sin_port || out->sin_addr.s_addr != sin.sin_addr.s_addr) viol("v4/native-roundtrip", "native -> object -> native changed %s:%u", ref, port);
    free(out);
    if (with_text > 0 && txt) {
        PSocketAddress *b = p_socket_address_new(txt, port); struct sockaddr_in o2;
        if (!b) viol("v4/from-text-failed", "p_socket_address_new(\"%s\") failed", txt);
        else { memset(&o2, 0, sizeof o2); if (!p_socket_address_to_native(b, &o2, sizeof o2) || o2.sin_addr.s_addr != sin.sin_addr.s_addr || o2.sin_port != sin.sin_port || o2.sin_family != AF_INET) viol("v4/text-roundtrip", "text round trip changed %s:%u", ref, port); p_socket_address_free(b); }
    }
    if (txt) p_free(txt);
    p_socket_address_free(a);
}

/* ---------- one IPv6 address ---------- */
static void check_v6(const unsigned char b16[16], uint16_t port, uint32_t flow, uint32_t scope)
{
    struct sockaddr_in6 s6, *nat, *out; PSocketAddress *a; char ref[INET6_ADDRSTRLEN]; pchar *txt; int k; size_t o;
    memset(&s6, 0, sizeof s6); s6.sin6_family = AF_INET6; s6.sin6_port = htons(port); memcpy(&s6.sin6_addr, b16, 16); s6.sin6_flowinfo = flow; s6.sin6_scope_id = scope;
    inet_ntop(AF_INET6, &s6.sin6_addr, ref, sizeof ref);
    if (!replay_mode) { o = snprintf(cur, sizeof cur, "v6 "); for (k = 0; k < 16; k++) o += snprintf(cur + o, sizeof cur - o, "%02x", b16[k]); snprintf(cur + o, sizeof cur - o, " %u %u %u", port, flow, scope); }
    n_eval++;
    nat = exact_copy(&s6, sizeof s6);
    a = p_socket_address_new_from_native(nat, sizeof s6);
    free(nat);
    if (!a) { viol("v6/from-native-failed", "new_from_native failed for %s", ref); return; }
    if (p_socket_address_get_family(a) != P_SOCKET_FAMILY_INET6) viol("v6/family", "family %d for %s", (int)p_socket_address_get_family(a), ref);
    if (p_socket_address_get_port(a) != port) viol("v6/port", "port %u, expected %u", p_socket_address_get_port(a), port);
    if (p_socket_address_get_flow_info(a) != flow) viol("v6/flowinfo", "flow info %u, expected %u", p_socket_address_get_flow_info(a), flow);
    if (p_socket_address_get_scope_id(a) != scope) viol("v6/scope-id", "scope id %u, expected %u", p_socket_address_get_scope_id(a), scope);
    if (p_socket_address_get_native_size(a) != sizeof(struct sockaddr_in6)) viol("v6/native-size", "native size %lu", (unsigned long)p_socket_address_get_native_size(a));
    if ((p_socket_address_is_any(a) == TRUE) != (IN6_IS_ADDR_UNSPECIFIED(&s6.sin6_addr) != 0)) viol("v6/is_any", "is_any = %d for %s", (int)p_socket_address_is_any(a), ref);
    if ((p_socket_address_is_loopback(a) == TRUE) != (IN6_IS_ADDR_LOOPBACK(&s6.sin6_addr) != 0)) viol("v6/is_loopback", "is_loopback = %d for %s", (int)p_socket_address_is_loopback(a), ref);
    txt = p_socket_address_get_address(a);
    if (!txt || strcmp(txt, ref)) viol("v6/text", "get_address = \"%s\", inet_ntop says \"%s\"", txt ? txt : "(null)", ref);
    out = malloc(sizeof *out); memset(out, 0xA5, sizeof *out);
    if (!p_socket_address_to_native(a, out, sizeof *out)) viol("v6/to-native-failed", "to_native failed for %s", ref);
    else if (out->sin6_family != AF_INET6 || out->sin6_port != s6.sin6_port || memcmp(&out->sin6_addr, &s6.sin6_addr, 16) || out->sin6_flowinfo != flow || out->sin6_scope_id != scope)
        viol("v6/native-roundtrip", "native -> object -> native changed %s port %u flow %u scope %u (got flow %u scope %u)", ref, port, flow, scope, out->sin6_flowinfo, out->sin6_scope_id);
    free(out);
    if (txt) {
        PSocketAddress *b = p_socket_address_new(txt, port); struct sockaddr_in6 o2;
        if (!b) viol("v6/from-text-failed", "p_socket_address_new(\"%s\") failed", txt);
        else {
            memset(&o2, 0, sizeof o2);
            if (!p_socket_address_to_native(b, &o2, sizeof o2) || memcmp(&o2.sin6_addr, &s6.sin6_addr, 16) || o2.sin6_port != s6.sin6_port || o2.sin6_family != AF_INET6) viol("v6/text-roundtrip", "text round trip changed %s", ref);
            /* setters / getters */
            p_socket_address_set_flow_info(b, flow); p_socket_address_set_scope_id(b, scope);
            if (p_socket_address_get_flow_info(b) != flow || p_socket_address_get_scope_id(b) != scope) viol("v6/set-get", "set_flow_info/set_scope_id not reflected by the getters");
            memset(&o2, 0, sizeof o2);
            if (p_socket_address_to_native(b, &o2, sizeof o2) && (o2.sin6_flowinfo != flow || o2.sin6_scope_id != scope)) viol("v6/native-roundtrip", "to_native after set_flow_info(%u)/set_scope_id(%u) gave flow %u scope %u", flow, scope, o2.sin6_flowinfo, o2.sin6_scope_id);
            p_socket_address_free(b);
        }
        p_free(txt);
    }
    p_socket_address_free(a);
}

/* ---------- one string ---------- */
static void check_string(const char *s)
{
    struct in_addr a4; struct in6_addr a6; int ok4 = inet_pton(AF_INET, s, &a4) > 0, ok6 = inet_pton(AF_INET6, s, &a6) > 0, okg = 0; uint32_t gscope = 0;
    PSocketAddress *a; char *heap = strdup(s);
    if (!replay_mode) snprintf(cur, sizeof cur, "string %s", s);
    n_eval++;
    if (strchr(s, ':')) {
        struct addrinfo hints, *res = NULL; memset(&hints, 0, sizeof hints); hints.ai_family = AF_UNSPEC; hints.ai_socktype = SOCK_STREAM; hints.ai_flags = AI_NUMERICHOST;
        if (getaddrinfo(s, NULL, &hints, &res) == 0) { if (res->ai_family == AF_INET6) { okg = 1; memcpy(&a6, &((struct sockaddr_in6 *)res->ai_addr)->sin6_addr, 16); gscope = ((struct sockaddr_in6 *)res->ai_addr)->sin6_scope_id; } freeaddrinfo(res); }
    }
    a = p_socket_address_new(heap, 4242);
    free(heap);
    if (a) {
        n_nontrivial++;
        if (!(ok4 || ok6 || okg)) viol("string/accepted-invalid", "p_socket_address_new accepted \"%s\", which the platform does not accept as a numeric address", s);
        else if (p_socket_address_get_family(a) == P_SOCKET_FAMILY_INET) {
            struct sockaddr_in o; memset(&o, 0, sizeof o);
            if (!ok4) viol("string/wrong-family", "\"%s\" parsed as IPv4 but inet_pton(AF_INET) rejects it", s);
            else if (!p_socket_address_to_native(a, &o, sizeof o) || o.sin_addr.s_addr != a4.s_addr || ntohs(o.sin_port) != 4242) viol("string/value", "\"%s\": binary value differs from inet_pton", s);
        } else {
            struct sockaddr_in6 o; memset(&o, 0, sizeof o);
            if (!(ok6 || okg)) viol("string/wrong-family", "\"%s\" parsed as IPv6 but the platform rejects it", s);
            else if (!p_socket_address_to_native(a, &o, sizeof o) || memcmp(&o.sin6_addr, &a6, 16) || ntohs(o.sin6_port) != 4242) viol("string/value", "\"%s\": binary value differs from the platform's", s);
            else if (okg && o.sin6_scope_id != gscope) viol("string/scope", "\"%s\": scope id %u, platform says %u", s, o.sin6_scope_id, gscope);
        }
        p_socket_address_free(a);
    } else if (ok4 || (strchr(s, ':') ? okg : ok6)) viol("string/rejected-valid", "p_socket_address_new rejected \"%s\", which the platform accepts as a numeric address", s);
}

/* ---------- lengths ---------- */
static void check_lengths(void)
{
    struct sockaddr_in sin; struct sockaddr_in6 s6; int fam, len; PSocketAddress *a4, *a6;
    memset(&sin, 0, sizeof sin); sin.sin_family = AF_INET; sin.sin_port = htons(80); sin.sin_addr.s_addr = htonl(0xC0A80001);
    memset(&s6, 0, sizeof s6); s6.sin6_family = AF_INET6; s6.sin6_port = htons(80); s6.sin6_addr.s6_addr[15] = 1; s6.sin6_scope_id = 3;
    for (fam = 0; fam < 2; fam++) for (len = 0; len <= 40; len++) {
        size_t full = fam ? sizeof s6 : sizeof sin; unsigned char big[64]; void *nat; PSocketAddress *a;
        memset(big, 0, sizeof big); memcpy(big, fam ? (void *)&s6 : (void *)&sin, full);
        snprintf(cur, sizeof cur, "lengths from_native %d %d", fam, len);
        hout_progress("sig=lengths/from-native/len-%d addr_enum replay %s", len, cur);
        n_eval++;
        nat = exact_copy(big, len);                        /* exactly len bytes are addressable */
        a = p_socket_address_new_from_native(nat, len);
        free(nat);
        if ((a != NULL) != ((size_t)len >= full)) viol("lengths/from-native-result", "new_from_native(%s, len %d) %s (structure size %zu)", fam ? "sockaddr_in6" : "sockaddr_in", len, a ? "succeeded" : "failed", full);
        if (a) { n_nontrivial++; p_socket_address_free(a); }
    }
    a4 = p_socket_address_new("192.168.0.1", 80); a6 = p_socket_address_new("::1", 80);
    for (fam = 0; fam < 2; fam++) for (len = 0; len <= 40; len++) {
        size_t full = fam ? sizeof s6 : sizeof sin; unsigned char *dst = malloc(len ? len : 1); pboolean ok; int k, touched = 0;
        memset(dst, 0xA5, len ? len : 1);
        snprintf(cur, sizeof cur, "lengths to_native %d %d", fam, len);
        hout_progress("sig=lengths/to-native/len-%d addr_enum replay %s", len, cur);
        n_eval++;
        ok = p_socket_address_to_native(fam ? a6 : a4, dst, len);
        if ((ok == TRUE) != ((size_t)len >= full)) viol("lengths/to-native-result", "to_native(%s, destlen %d) returned %d (structure size %zu)", fam ? "IPv6" : "IPv4", len, (int)ok, full);
        if (!ok) { for (k = 0; k < len; k++) if (dst[k] != 0xA5) touched = 1; if (touched) viol("lengths/to-native-wrote-on-failure", "to_native failed for destlen %d but wrote into the buffer", len); }
        else n_nontrivial++;
        free(dst);
    }
    p_socket_address_free(a4); p_socket_address_free(a6);
}

/* ---------- the any / loopback constructors (heap memory is pattern-filled by the sanitizer run-time, so a field left unassigned shows) ---------- */
static void check_wellknown(void)
{
    static const int PORTS2[] = {0, 1, 80, 65535}; int f, p, w;
    for (f = 0; f < 2; f++) for (p = 0; p < 4; p++) for (w = 0; w < 2; w++) {
        PSocketFamily fam = f ? P_SOCKET_FAMILY_INET6 : P_SOCKET_FAMILY_INET; PSocketAddress *a; struct sockaddr_storage ss; char sg[64]; const char *wn = w ? "loopback" : "any";
        snprintf(cur, sizeof cur, "wellknown %s %d %d", wn, f ? 6 : 4, PORTS2[p]);
        hout_progress("sig=wellknown/%s addr_enum replay %s", wn, cur);
        n_eval++;
        a = w ? p_socket_address_new_loopback(fam, (puint16)PORTS2[p]) : p_socket_address_new_any(fam, (puint16)PORTS2[p]);
        if (!a) { snprintf(sg, sizeof sg, "wellknown/%s/null", wn); viol(sg, "constructor returned NULL"); continue; }
        n_nontrivial++;
        snprintf(sg, sizeof sg, "wellknown/%s", wn);
        if (p_socket_address_get_family(a) != fam || p_socket_address_get_port(a) != PORTS2[p]) viol(sg, "family / port not as requested");
        if (w ? !p_socket_address_is_loopback(a) : !p_socket_address_is_any(a)) viol(sg, "the %s address is not classified as %s", wn, wn);
        if (p_socket_address_get_flow_info(a) != 0 || p_socket_address_get_scope_id(a) != 0) viol(sg, "flow info %u / scope id %u of a freshly built %s address (must be 0)", p_socket_address_get_flow_info(a), p_socket_address_get_scope_id(a), wn);
        memset(&ss, 0x5A, sizeof ss);
        if (!p_socket_address_to_native(a, &ss, sizeof ss)) viol(sg, "to_native failed");
        else if (f) {
            struct sockaddr_in6 *s6 = (struct sockaddr_in6 *)&ss; struct in6_addr want = w ? (struct in6_addr)IN6ADDR_LOOPBACK_INIT : (struct in6_addr)IN6ADDR_ANY_INIT;
            if (s6->sin6_family != AF_INET6 || ntohs(s6->sin6_port) != PORTS2[p] || memcmp(&s6->sin6_addr, &want, 16) || s6->sin6_flowinfo != 0 || s6->sin6_scope_id != 0) viol(sg, "native form differs from the platform's in6addr_%s (flow %u scope %u)", wn, s6->sin6_flowinfo, s6->sin6_scope_id);
        } else {
            struct sockaddr_in *s4 = (struct sockaddr_in *)&ss;
            if (s4->sin_family != AF_INET || ntohs(s4->sin_port) != PORTS2[p] || (w ? (ntohl(s4->sin_addr.s_addr) >> 24) != 127 : s4->sin_addr.s_addr != htonl(INADDR_ANY))) viol(sg, "native IPv4 form is not the %s address", wn);
        }
        p_socket_address_free(a);
    }
}

static void finish(void)
{
    int i;
    hout_stat("evaluations", n_eval); hout_stat("nontrivial", n_nontrivial);
    { char k[64]; snprintf(k, sizeof k, "evaluations_%s", MODE); hout_stat(k, n_eval); }
    hout_sample("%s: last case [%s]", MODE, cur);
    for (i = 0; i < nsigs; i++) hout_note("signature %s occurred %ld time(s)", sigs[i].sig, sigs[i].n);
}

int main(int argc, char **argv)
{
    static const int OCT[] = {0, 1, 126, 127, 128, 254, 255}; static const int PORTS[] = {0, 1, 80, 255, 256, 32767, 32768, 65535};
    if (argc < 2) return 2;
    hout_open(); p_libsys_init();
    MODE = argv[1];
    if (!strcmp(MODE, "v4class")) {
        int a, b, c, d, p;
        for (a = 0; a < 7; a++) for (b = 0; b < 7; b++) for (c = 0; c < 7; c++) for (d = 0; d < 7; d++) for (p = 0; p < 8; p++) {
            uint32_t h = (uint32_t)OCT[a] << 24 | OCT[b] << 16 | OCT[c] << 8 | OCT[d];
            hout_progress("sig=v4/crash addr_enum replay v4 %u %d", h, PORTS[p]);
            check_v4(h, (uint16_t)PORTS[p], 1); n_nontrivial++;
        }
    } else if (!strcmp(MODE, "ports")) {
        static const uint32_t AD[] = {0, 0x7f000001, 0xC0A80001, 0xffffffff}; int i, p;
        for (i = 0; i < 4; i++) for (p = 0; p < 65536; p++) { check_v4(AD[i], (uint16_t)p, 1); n_nontrivial++; }
        { unsigned char l6[16] = {0}; l6[15] = 1; for (p = 0; p < 65536; p += 1) { check_v6(l6, (uint16_t)p, 0, 0); n_nontrivial++; } }
    } else if (!strcmp(MODE, "v6")) {
        static const uint16_t G[] = {0, 1, 0xffff, 0x7f00}; static const uint32_t FS[] = {0, 1, 0xffffffffu}; long code; int k, f, s;
        for (code = 0; code < 65536; code++) {
            unsigned char b[16]; long c = code;
            for (k = 0; k < 8; k++) { uint16_t g = G[c & 3]; c >>= 2; b[2 * k] = g >> 8; b[2 * k + 1] = g & 0xff; }
            check_v6(b, (uint16_t)(code * 7), FS[code % 3], FS[(code / 3) % 3]); n_nontrivial++;
        }
        {   /* special families x every flow/scope combination */
            static const char *SP[] = {"::", "::1", "::ffff:1.2.3.4", "::ffff:127.0.0.1", "::1.2.3.4", "fe80::1", "fe80::ffff:1", "ff02::1", "2001:db8::", "2001:db8:0:0:1::1", "1::", "::2:0:0:0", "1:0:0:2::3", "64:ff9b::192.0.2.33", "ffff:ffff:ffff:ffff:ffff:ffff:ffff:ffff"};
            for (k = 0; k < (int)(sizeof SP / sizeof SP[0]); k++) for (f = 0; f < 3; f++) for (s = 0; s < 3; s++) { unsigned char b[16]; if (inet_pton(AF_INET6, SP[k], b) != 1) { fprintf(stderr, "bad special %s\n", SP[k]); return 2; } check_v6(b, 443, FS[f], FS[s]); n_nontrivial++; }
        }
    } else if (!strcmp(MODE, "strings")) {
        static const char AL[] = "125.:f% "; int maxlen = atoi(argv[2]), shard = argc > 3 ? atoi(argv[3]) : 0, ns = argc > 4 ? atoi(argv[4]) : 1, len; long code, total, idx = 0;
        for (len = 0; len <= maxlen; len++) {
            total = 1; { int i; for (i = 0; i < len; i++) total *= 8; }
            for (code = 0; code < total; code++, idx++) {
                char s[16]; long c = code; int i;
                if (idx % ns != shard) continue;
                for (i = 0; i < len; i++) { s[i] = AL[c & 7]; c >>= 3; } s[len] = 0;
                if ((idx & 0xfff) == 0) hout_progress("sig=string/crash addr_enum replay string %s", s);
                check_string(s);
            }
        }
        {   /* hand-built variants of compressed / mapped / scoped forms */
            static const char *EX[] = {"::", "::1", "1::", "1::2", "::ffff:1.2.3.4", "::1.2.3.4", "1:2:3:4:5:6:7:8", "1:2:3:4:5:6:7::", "::2:3:4:5:6:7:8", "1:2:3:4:5:6:7:8:9", "1:2:3:4:5:6:1.2.3.4", "1::2::3", ":::", "fe80::1%1", "fe80::1%lo", "fe80::1%nosuchif", "fe80::1%", "1.2.3", "1.2.3.4.5", "256.1.1.1", "01.2.3.4", "1.2.3.4 ", " 1.2.3.4", "1.2.3.04", "0x1.2.3.4", "1.2.3.-4", "", "localhost", "::g", "12345::", "::ffff:256.1.1.1", "1:2:3:4:5:6:7:8%1"};
            int i; if (shard == 0) for (i = 0; i < (int)(sizeof EX / sizeof EX[0]); i++) check_string(EX[i]);
        }
        if (shard == ns - 1) {   /* texts of every length up to the longest forms (39 / 45 characters) x zone suffixes of every length: no text length is special */
            static const char *ZONES[] = {"", "%1", "%12", "%123", "%1234", "%12345", "%123456", "%1234567", "%12345678", "%123456789", "%4294967295", "%4294967296", "%0000000000000001", "%lo", "%nosuchinterface0", "%"};
            static const char *HEX[] = {"f", "1f", "a1f", "fe80"}; static const char *DEC[] = {"1", "25", "255"};
            char base[80], full[128]; int d, k, g, z; size_t o;
            for (d = 0; d < 4; d++) for (k = 0; k < 4; k++) {
                int nb = 0; char bases[12][80];
                /* 8 groups of d+1 digits (first group fe80: link-local, so that a zone is meaningful) */
                o = snprintf(base, sizeof base, "fe80"); for (g = 1; g < 8; g++) o += snprintf(base + o, sizeof base - o, ":%s", HEX[d]); strcpy(bases[nb++], base);
                /* compressed: fe80:: followed by k+1 groups */
                o = snprintf(base, sizeof base, "fe80:"); for (g = 0; g <= k; g++) o += snprintf(base + o, sizeof base - o, ":%s", HEX[d]); strcpy(bases[nb++], base);
                /* 6 groups and a dotted quad */
                if (k < 3) { o = snprintf(base, sizeof base, "fe80"); for (g = 1; g < 6; g++) o += snprintf(base + o, sizeof base - o, ":%s", HEX[d]); snprintf(base + o, sizeof base - o, ":%s.%s.%s.%s", DEC[k], DEC[k], DEC[k], DEC[k]); strcpy(bases[nb++], base); }
                if (k < 3) { snprintf(base, sizeof base, "::ffff:%s.%s.%s.%s", DEC[k], DEC[k], DEC[k], DEC[k]); strcpy(bases[nb++], base); }
                for (g = 0; g < nb; g++) for (z = 0; z < (int)(sizeof ZONES / sizeof ZONES[0]); z++) { snprintf(full, sizeof full, "%s%s", bases[g], ZONES[z]); check_string(full); }
            }
        }
    } else if (!strcmp(MODE, "lengths")) { check_lengths(); check_wellknown(); }
    else if (!strcmp(MODE, "v4all")) {
        uint32_t shard = (uint32_t)atoi(argv[2]), ns = (uint32_t)atoi(argv[3]); uint64_t h;
        for (h = shard; h < ((uint64_t)1 << 32); h += ns) { if ((h & 0xfffff) == shard) hout_progress("sig=v4/crash addr_enum replay v4 %u 9", (unsigned)h); check_v4((uint32_t)h, (uint16_t)(h * 31), -1); }
        n_nontrivial = n_eval;
    } else if (!strcmp(MODE, "replay")) {
        replay_mode = 1; MODE = "replay";
        { size_t o = 0; int i; for (i = 2; i < argc; i++) o += snprintf(cur + o, sizeof cur - o, "%s%s", i > 2 ? " " : "", argv[i]); }
        if (argc >= 5 && !strcmp(argv[2], "v4")) check_v4((uint32_t)strtoul(argv[3], NULL, 0), (uint16_t)atoi(argv[4]), 1);
        else if (argc >= 7 && !strcmp(argv[2], "v6")) { unsigned char b[16]; int k; for (k = 0; k < 16; k++) { unsigned v; sscanf(argv[3] + 2 * k, "%2x", &v); b[k] = (unsigned char)v; } check_v6(b, (uint16_t)atoi(argv[4]), (uint32_t)strtoul(argv[5], NULL, 0), (uint32_t)strtoul(argv[6], NULL, 0)); }
        else if (argc >= 3 && !strcmp(argv[2], "string")) check_string(argc > 3 ? argv[3] : "");
        else if (!strcmp(argv[2], "lengths")) check_lengths();
        else if (!strcmp(argv[2], "wellknown")) check_wellknown();
        printf("replay finished: %ld violation report(s)\n", hout_nviol);
        return hout_nviol ? 1 : 0;
    } else return 2;
    finish();
    return hout_nviol ? 1 : 0;
}
