/* Independence of objects (C12, C15, C16, C17): two threads, each with objects of its own, run the same deterministic call sequence at the same
 * time under the controlled scheduler.  What each thread observes must equal what the sequence gives when run alone, and the happens-before monitor
 * must stay silent: module-level scratch state shared between objects (a hoisted buffer, a cached cursor) is a data race between unrelated objects.
 * harness: tree <0|1|2> | hash | list | ini <file> | addr
 */
#include <plibsys.h>
#include "mc.h"
#include <string.h>
#include <stdio.h>
#include <stdlib.h>

static const char *MODE = "tree"; static int TT; static const char *INI_PATH;
static char want[2][700], got[2][700];

static pint cmp_int(pconstpointer a, pconstpointer b) { return P_POINTER_TO_INT(a) - P_POINTER_TO_INT(b); }
typedef struct { char *p; size_t o; } Out;
static pboolean trav(ppointer k, ppointer v, ppointer d) { Out *o = d; o->o += snprintf(o->p + o->o, 690 - o->o, "%d:%d,", P_POINTER_TO_INT(k), P_POINTER_TO_INT(v)); return FALSE; }

static void run_tree(int who, char *out)
{
    PTree *t = p_tree_new((PTreeType)TT, cmp_int); Out o = {out, 0}; int i;
    static const int K[2][10] = {{5, 2, 8, 1, 9, 3, 7, 4, 6, 2}, {14, 11, 19, 12, 13, 18, 15, 16, 17, 11}};
    for (i = 0; i < 10; i++) p_tree_insert(t, P_INT_TO_POINTER(K[who][i]), P_INT_TO_POINTER(K[who][i] * 3 + i));
    p_tree_remove(t, P_INT_TO_POINTER(K[who][0])); p_tree_remove(t, P_INT_TO_POINTER(K[who][3]));
    o.o += snprintf(out, 690, "n=%d l=%d|", p_tree_get_nnodes(t), P_POINTER_TO_INT(p_tree_lookup(t, P_INT_TO_POINTER(K[who][2]))));
    p_tree_foreach(t, trav, &o);
    p_tree_free(t);
}
static void run_hash(int who, char *out)
{
    PHashTable *h = p_hash_table_new(); PList *l, *c; size_t o = 0; int i, sum = 0, n = 0;
    for (i = 1; i <= 6; i++) p_hash_table_insert(h, P_INT_TO_POINTER(i + who * 101), P_INT_TO_POINTER(i * 10 + who));
    p_hash_table_insert(h, P_INT_TO_POINTER(2 + who * 101), P_INT_TO_POINTER(77));
    p_hash_table_remove(h, P_INT_TO_POINTER(3 + who * 101));
    l = p_hash_table_keys(h); for (c = l; c; c = c->next) { sum += P_POINTER_TO_INT(c->data); n++; } p_list_free(l);
    o += snprintf(out, 690, "keys=%d/%d look=%d ", n, sum, P_POINTER_TO_INT(p_hash_table_lookup(h, P_INT_TO_POINTER(2 + who * 101))));
    l = p_hash_table_lookup_by_value(h, P_INT_TO_POINTER(77), NULL); o += snprintf(out + o, 690 - o, "byval=%d", (int)p_list_length(l)); p_list_free(l);
    p_hash_table_free(h);
}
static void run_list(int who, char *out)
{
    PList *l = NULL, *c; size_t o = 0; int i;
    for (i = 0; i < 5; i++) l = p_list_append(l, P_INT_TO_POINTER(i + who * 10));
    l = p_list_prepend(l, P_INT_TO_POINTER(99)); l = p_list_remove(l, P_INT_TO_POINTER(2 + who * 10)); l = p_list_reverse(l);
    for (c = l; c; c = c->next) o += snprintf(out + o, 690 - o, "%d,", P_POINTER_TO_INT(c->data));
    snprintf(out + o, 690 - o, "len=%d last=%d", (int)p_list_length(l), P_POINTER_TO_INT(p_list_last(l)->data));
    p_list_free(l);
}
static void run_ini(int who, char *out)
{
    PIniFile *f = p_ini_file_new(INI_PATH); PList *l, *c; size_t o = 0; pchar *s; const char *sec = who ? "beta" : "alpha";
    if (!f || !p_ini_file_parse(f, NULL)) { snprintf(out, 690, "parse-failed"); p_ini_file_free(f); return; }
    s = p_ini_file_parameter_string(f, sec, "name", "dflt"); o += snprintf(out + o, 690 - o, "name=%s ", s ? s : "(null)"); p_free(s);
    o += snprintf(out + o, 690 - o, "int=%d bool=%d dbl=%g list=", p_ini_file_parameter_int(f, sec, "num", -1), (int)p_ini_file_parameter_boolean(f, sec, "flag", FALSE), p_ini_file_parameter_double(f, sec, "real", -1.0));
    l = p_ini_file_parameter_list(f, sec, "items"); for (c = l; c; c = c->next) { o += snprintf(out + o, 690 - o, "%s,", (char *)c->data); p_free(c->data); } p_list_free(l);
    l = p_ini_file_keys(f, sec); o += snprintf(out + o, 690 - o, " keys=%d", (int)p_list_length(l)); for (c = l; c; c = c->next) p_free(c->data); p_list_free(l);
    p_ini_file_free(f);
}
static void run_addr(int who, char *out)
{
    static const char *TXT[2][3] = {{"192.168.10.20", "fe80::1234:5678", "::ffff:10.1.2.3"}, {"10.0.0.254", "2001:db8::ff00:42:8329", "127.0.0.1"}};
    size_t o = 0; int i;
    for (i = 0; i < 3; i++) {
        PSocketAddress *a = p_socket_address_new(TXT[who][i], (puint16)(4000 + i + who)), *b; pchar *s; struct sockaddr_storage ss;
        if (!a) { o += snprintf(out + o, 690 - o, "null;"); continue; }
        s = p_socket_address_get_address(a);
        memset(&ss, 0, sizeof ss); p_socket_address_to_native(a, &ss, sizeof ss); b = p_socket_address_new_from_native(&ss, sizeof ss);
        o += snprintf(out + o, 690 - o, "%s/%u/%d/%d;", s ? s : "(null)", p_socket_address_get_port(a), (int)p_socket_address_is_loopback(a), b ? (int)(p_socket_address_get_port(b) == p_socket_address_get_port(a) && p_socket_address_get_family(b) == p_socket_address_get_family(a)) : -1);
        p_free(s); p_socket_address_free(a); p_socket_address_free(b);
    }
}
static void run(int who, char *out)
{
    out[0] = 0;
    if (!strcmp(MODE, "tree")) run_tree(who, out); else if (!strcmp(MODE, "hash")) run_hash(who, out); else if (!strcmp(MODE, "list")) run_list(who, out);
    else if (!strcmp(MODE, "ini")) run_ini(who, out); else run_addr(who, out);
}
static void *worker(void *a) { int i = a != NULL; run(i, got[i]); return NULL; }

static void h_indep(int argc, char **argv)
{
    int i, a, b; const char *prop;
    MODE = argc > 0 ? argv[0] : "tree"; TT = argc > 1 ? atoi(argv[1]) : 0; INI_PATH = argc > 1 ? argv[1] : "/nonexistent";
    prop = !strcmp(MODE, "tree") ? "C12" : (!strcmp(MODE, "hash") || !strcmp(MODE, "list")) ? "C15" : !strcmp(MODE, "ini") ? "C16" : "C17";
    run(0, want[0]); run(1, want[1]);
    a = mc_thread_create(worker, NULL); b = mc_thread_create(worker, (void *)1);
    mc_thread_join(a); mc_thread_join(b);
    for (i = 0; i < 2; i++) if (strcmp(want[i], got[i])) { char sig[64]; snprintf(sig, sizeof sig, "independent-objects/result-differs/%s", MODE); mc_fail(prop, sig, "%s: a call sequence on objects of its own gave [%s] while another thread used other objects, and [%s] when run alone", MODE, got[i], want[i]); }
    mc_nontrivial(0);
    mc_outcome("%s | %s", got[0], got[1]);
}

static const McHarness HS[] = { {"indep", h_indep, "tree <type> | hash | list | ini <file> | addr"} };
int main(int argc, char **argv) { return mc_main(argc, argv, HS, 1); }
