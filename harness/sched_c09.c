/* C09: socket data integrity over KSIM (in-memory socket layer, 8-byte stream buffers, 2-datagram queues) under the
 * controlled scheduler: all interleavings of client and server threads x all EINTR / spurious EAGAIN / extra-short
 * transfer patterns up to the deviation bound.
 *
 *  stream <msglen> <sendchunk> <recvbuf> <cli-blocking 0|1> <srv-blocking 0|1> <family 4|6>
 *  dgram <recvbuf> <family>
 *  peergone
 */
#include <plibsys.h>
#include "mc.h"
#include <netinet/in.h>
#include <arpa/inet.h>
#include <fcntl.h>
#include <errno.h>
#include <unistd.h>
#include <sys/socket.h>
#include "ksim.h"
#include <errno.h>
#include <signal.h>
#include <stdio.h>
#include <stdlib.h>
#include <string.h>

static PSocket *lsock; static PSocketAddress *laddr;
static int MSG, CHUNK, RBUF, CBLK, SBLK, FAM = 4, TMO, USE_RFROM;
static unsigned char sent[64], got[64]; static int nsent, ngot;
static PSocketFamily fam(void) { return FAM == 6 ? P_SOCKET_FAMILY_INET6 : P_SOCKET_FAMILY_INET; }
static const char *lo(void) { return FAM == 6 ? "::1" : "127.0.0.1"; }

static __thread unsigned long call_t0;
static void bad_error(const char *who, const char *call, PError *e, int blocking)
{
    char sig[96];
    if (!e) return;
    if (p_error_get_code(e) == (pint)P_ERROR_IO_TIMED_OUT && TMO && ksim_clock_ms - call_t0 < (unsigned long)TMO) {
        snprintf(sig, sizeof sig, "timed-out-early/%s", call);
        mc_fail("C09", sig, "%s: %s reported a time-out after %lu ms of (virtual) time, the socket's time-out is %d ms: an interrupted wait was reported as a time-out", who, call, ksim_clock_ms - call_t0, TMO);
    }
    if (blocking && (p_error_get_code(e) == (pint)P_ERROR_IO_WOULD_BLOCK || p_error_get_native_code(e) == EINTR || p_error_get_native_code(e) == EAGAIN) && p_error_get_code(e) != (pint)P_ERROR_IO_TIMED_OUT) {
        snprintf(sig, sizeof sig, "stream/internal-condition-reported/%s", call);
        mc_fail("C09", sig, "%s: %s on a blocking socket failed with code %d native %d (%s): an internal would-block / interrupted condition was reported to the caller", who, call, p_error_get_code(e), p_error_get_native_code(e), p_error_get_message(e));
    }
}

static void *client(void *arg)
{
    PSocket *c = p_socket_new(fam(), P_SOCKET_TYPE_STREAM, P_SOCKET_PROTOCOL_TCP, NULL); PError *e = NULL; int off = 0; (void)arg;
    if (!c) mc_fail("C09", "stream/new-failed", "p_socket_new failed");
    if (!p_socket_connect(c, laddr, &e)) { bad_error("client", "connect", e, 1); mc_fail("C09", "stream/connect-failed", "blocking connect to a listening socket failed: %s", e ? p_error_get_message(e) : "?"); }
    p_socket_set_blocking(c, CBLK); if (TMO) p_socket_set_timeout(c, TMO);
    while (off < MSG) {
        int n = MSG - off < CHUNK ? MSG - off : CHUNK; pssize r;
        e = NULL; call_t0 = ksim_clock_ms; r = p_socket_send(c, (pchar *)sent + off, n, &e);
        if (r < 0) {
            if (!CBLK && e && p_error_get_code(e) == (pint)P_ERROR_IO_WOULD_BLOCK) { p_error_free(e); e = NULL; if (!p_socket_io_condition_wait(c, P_SOCKET_IO_CONDITION_POLLOUT, &e)) { bad_error("client", "io_condition_wait", e, 1); mc_fail("C09", "stream/wait-failed", "io_condition_wait(POLLOUT) failed: %s", e ? p_error_get_message(e) : "?"); } mc_nontrivial(1); continue; }
            bad_error("client", "send", e, CBLK);
            mc_fail("C09", "stream/send-failed", "send failed with code %d native %d", e ? p_error_get_code(e) : 0, e ? p_error_get_native_code(e) : 0);
        }
        if (r == 0 || r > n) mc_fail("C09", "stream/send-count", "p_socket_send returned %ld for a request of %d bytes", (long)r, n);
        if (r < n) mc_nontrivial(2);
        off += (int)r; nsent = off;
    }
    p_socket_free(c);
    return NULL;
}
static void *server(void *arg)
{
    PError *e = NULL; PSocket *a = p_socket_accept(lsock, &e); char buf[32]; (void)arg;
    if (!a) { bad_error("server", "accept", e, 1); mc_fail("C09", "stream/accept-failed", "blocking accept failed: %s", e ? p_error_get_message(e) : "?"); }
    p_socket_set_blocking(a, SBLK); if (TMO) p_socket_set_timeout(a, TMO);
    for (;;) {
        pssize r; e = NULL; call_t0 = ksim_clock_ms;
        if (USE_RFROM) { PSocketAddress *from = NULL; r = p_socket_receive_from(a, &from, buf, RBUF, &e); p_socket_address_free(from); } else r = p_socket_receive(a, buf, RBUF, &e);
        if (r < 0) {
            if (!SBLK && e && p_error_get_code(e) == (pint)P_ERROR_IO_WOULD_BLOCK) { p_error_free(e); e = NULL; if (!p_socket_io_condition_wait(a, P_SOCKET_IO_CONDITION_POLLIN, &e)) { bad_error("server", "io_condition_wait", e, 1); mc_fail("C09", "stream/wait-failed", "io_condition_wait(POLLIN) failed"); } mc_nontrivial(3); continue; }
            bad_error("server", "receive", e, SBLK);
            mc_fail("C09", "stream/receive-failed", "receive failed with code %d native %d", e ? p_error_get_code(e) : 0, e ? p_error_get_native_code(e) : 0);
        }
        if (r == 0) break;                    /* orderly end of stream */
        if (r > RBUF || ngot + r > (pssize)sizeof got) mc_fail("C09", "stream/receive-count", "receive returned %ld for a buffer of %d", (long)r, RBUF);
        memcpy(got + ngot, buf, (size_t)r); ngot += (int)r;
    }
    p_socket_free(a);
    return NULL;
}
static void listen_setup(PSocketType type)
{
    PSocketAddress *a = p_socket_address_new(lo(), 5555);
    lsock = p_socket_new(fam(), type, type == P_SOCKET_TYPE_STREAM ? P_SOCKET_PROTOCOL_TCP : P_SOCKET_PROTOCOL_UDP, NULL);
    if (!lsock || !a || !p_socket_bind(lsock, a, TRUE, NULL)) mc_fail("C09", "setup", "bind failed");
    if (type == P_SOCKET_TYPE_STREAM && !p_socket_listen(lsock, NULL)) mc_fail("C09", "setup", "listen failed");
    laddr = a;
}
/* job "peergone ... -- handler": the application installed its own SIGPIPE handler before it initialised the library; a write to a peer that has gone must
 * still yield an error and not run that handler (the library promises "an error, not a signal" whatever the application had installed) */
static void app_sigpipe_handler(int s) { (void)s; }
void mc_harness_preinit(void)
{
    char cmd[512]; int fd = open("/proc/self/cmdline", O_RDONLY); ssize_t n = fd >= 0 ? read(fd, cmd, sizeof cmd - 1) : 0, i;
    if (fd >= 0) close(fd);
    for (i = 0; i + 7 < n; i++) if (!memcmp(cmd + i, "handler", 8)) { struct sigaction sa; memset(&sa, 0, sizeof sa); sa.sa_handler = app_sigpipe_handler; sigaction(SIGPIPE, &sa, NULL); }
}
static void sigpipe_state(void) { struct sigaction sa; sigaction(SIGPIPE, NULL, &sa); ksim_sigpipe_ignored = sa.sa_handler == SIG_IGN; }

static void h_stream(int argc, char **argv)
{
    int i, a, b;
    MSG = argc > 0 ? atoi(argv[0]) : 9; CHUNK = argc > 1 ? atoi(argv[1]) : 3; RBUF = argc > 2 ? atoi(argv[2]) : 4; CBLK = argc > 3 ? atoi(argv[3]) : 1; SBLK = argc > 4 ? atoi(argv[4]) : 1; FAM = argc > 5 ? atoi(argv[5]) : 4; TMO = argc > 6 ? atoi(argv[6]) : 0; USE_RFROM = argc > 7 ? atoi(argv[7]) : 0;
    sigpipe_state();
    for (i = 0; i < MSG; i++) sent[i] = (unsigned char)(i * 7 + 3);
    listen_setup(P_SOCKET_TYPE_STREAM);
    a = mc_thread_create(server, NULL); b = mc_thread_create(client, NULL);
    mc_thread_join(a); mc_thread_join(b);
    if (ngot != nsent || nsent != MSG || memcmp(got, sent, (size_t)MSG)) {
        char s1[140] = "", s2[140] = ""; size_t o = 0; for (i = 0; i < nsent && o < 130; i++) o += snprintf(s1 + o, sizeof s1 - o, "%02x", sent[i]); o = 0; for (i = 0; i < ngot && o < 130; i++) o += snprintf(s2 + o, sizeof s2 - o, "%02x", got[i]);
        mc_fail("C09", ngot < nsent ? "stream/bytes-lost" : ngot > nsent ? "stream/bytes-duplicated" : "stream/bytes-corrupted", "bytes reported as sent (%d): %s; bytes received (%d): %s", nsent, s1, ngot, s2);
    }
    p_socket_free(lsock); p_socket_address_free(laddr);
    mc_nontrivial(0);
    mc_outcome("ok %d bytes", ngot);
}

/* ------------------------------------------------------------------ half close: send request, shut down the write side, read the reply until end of stream */
static unsigned char reply[16]; static int nreply;
static void *hc_server(void *arg)
{
    PSocket *a = p_socket_accept(lsock, NULL); char buf[16]; int n = 0; pssize r; (void)arg;
    if (!a) mc_fail("C09", "stream/accept-failed", "accept failed");
    while ((r = p_socket_receive(a, buf, sizeof buf, NULL)) > 0) n += (int)r;          /* request until the client's FIN */
    if (r < 0) mc_fail("C09", "halfclose/server-receive-failed", "server receive failed");
    { int off = 0; while (off < 6) { r = p_socket_send(a, (pchar *)"REPLY!" + off, 6 - off, NULL); if (r <= 0) mc_fail("C09", "halfclose/server-send-failed", "server send failed"); off += (int)r; } }
    p_socket_free(a);                          /* reply and FIN are now queued for the client */
    return NULL;
}
static void h_halfclose(int argc, char **argv)
{
    PSocket *c; PError *e = NULL; int t; char buf[8]; pssize r; (void)argc; (void)argv;
    sigpipe_state(); listen_setup(P_SOCKET_TYPE_STREAM);
    t = mc_thread_create(hc_server, NULL);
    c = p_socket_new(fam(), P_SOCKET_TYPE_STREAM, P_SOCKET_PROTOCOL_TCP, NULL);
    if (!c || !p_socket_connect(c, laddr, NULL)) mc_fail("C09", "stream/connect-failed", "connect failed");
    { int off = 0; while (off < 2) { r = p_socket_send(c, (pchar *)"rq" + off, 2 - off, NULL); if (r <= 0) mc_fail("C09", "halfclose/setup", "request send failed"); off += (int)r; } }
    if (!p_socket_shutdown(c, FALSE, TRUE, NULL)) mc_fail("C09", "halfclose/setup", "shutdown(write) failed");
    for (;;) {
        e = NULL; r = p_socket_receive(c, buf, 4, &e);
        if (r < 0) { bad_error("client", "receive", e, 1); mc_fail("C09", "halfclose/receive-failed", "receive after shutdown(write) failed with code %d native %d although %d of 6 reply bytes were read so far (reply bytes and the peer's end of stream are pending)", e ? p_error_get_code(e) : 0, e ? p_error_get_native_code(e) : 0, nreply); }
        if (r == 0) break;
        memcpy(reply + nreply, buf, (size_t)r); nreply += (int)r;
    }
    mc_thread_join(t);
    if (nreply != 6 || memcmp(reply, "REPLY!", 6)) mc_fail("C09", "stream/bytes-lost", "client read %d of the 6 reply bytes before end of stream", nreply);
    p_socket_free(c); p_socket_free(lsock); p_socket_address_free(laddr);
    mc_nontrivial(0);
    mc_outcome("reply ok");
}

/* ------------------------------------------------------------------ datagrams */
static int DLEN[3] = {1, 5, 9};          /* third harness argument z: {0, 5, 0} (empty datagrams are datagrams: length 0, sender address reported) */
static int dg_n, dg_len[4]; static unsigned char dg_data[4][16]; static int dg_port[4]; static int sender_port;
static void *dg_sender(void *arg)
{
    PSocket *s = p_socket_new(fam(), P_SOCKET_TYPE_DATAGRAM, P_SOCKET_PROTOCOL_UDP, NULL); PSocketAddress *me = p_socket_address_new(lo(), 6001), *la; int i; unsigned char buf[16]; (void)arg;
    if (!s || !p_socket_bind(s, me, TRUE, NULL)) mc_fail("C09", "setup", "sender bind failed");
    la = p_socket_get_local_address(s, NULL); sender_port = la ? p_socket_address_get_port(la) : -1; p_socket_address_free(la);
    for (i = 0; i < 3; i++) {
        PError *e = NULL; pssize r; int k;
        for (k = 0; k < DLEN[i]; k++) buf[k] = (unsigned char)(0x10 * (i + 1) + k);
        r = p_socket_send_to(s, laddr, (pchar *)buf, DLEN[i], &e);
        if (r != DLEN[i]) { bad_error("sender", "send_to", e, 1); mc_fail("C09", "dgram/send_to-failed", "send_to returned %ld for %d bytes (code %d)", (long)r, DLEN[i], e ? p_error_get_code(e) : 0); }
    }
    p_socket_free(s); p_socket_address_free(me);
    return NULL;
}
static void *dg_receiver(void *arg)
{
    char buf[32]; (void)arg;
    p_socket_set_timeout(lsock, 50); TMO = 50;
    for (;;) {
        PError *e = NULL; PSocketAddress *from = NULL; pssize r; unsigned long t0 = ksim_clock_ms;
        r = p_socket_receive_from(lsock, &from, buf, RBUF, &e);
        if (r < 0) { if (e && p_error_get_code(e) == (pint)P_ERROR_IO_TIMED_OUT) { if (ksim_clock_ms - t0 < 50) mc_fail("C09", "timed-out-early/receive_from", "receive_from reported a time-out after %lu ms of (virtual) time, the socket's time-out is 50 ms", ksim_clock_ms - t0); p_error_free(e); break; } bad_error("receiver", "receive_from", e, 1); mc_fail("C09", "dgram/receive_from-failed", "receive_from failed with code %d native %d", e ? p_error_get_code(e) : 0, e ? p_error_get_native_code(e) : 0); }
        if (r > RBUF) mc_fail("C09", "dgram/not-cut-to-buffer", "receive_from returned %ld bytes for a buffer of %d", (long)r, RBUF);
        if (dg_n < 4) { dg_len[dg_n] = (int)r; memcpy(dg_data[dg_n], buf, (size_t)r); dg_port[dg_n] = from ? p_socket_address_get_port(from) : -1; dg_n++; }
        p_socket_address_free(from);
        if (dg_n >= 3) break;
    }
    return NULL;
}
static void h_dgram(int argc, char **argv)
{
    int a, b, i, next = 0;
    RBUF = argc > 0 ? atoi(argv[0]) : 4; FAM = argc > 1 ? atoi(argv[1]) : 4;
    if (argc > 2 && argv[2][0] == 'z') { DLEN[0] = 0; DLEN[2] = 0; }
    listen_setup(P_SOCKET_TYPE_DATAGRAM);
    a = mc_thread_create(dg_receiver, NULL); b = mc_thread_create(dg_sender, NULL);
    mc_thread_join(a); mc_thread_join(b);
    for (i = 0; i < dg_n; i++) {      /* each received datagram = one sent datagram cut to the buffer, in sending order (loss allowed), sender address reported */
        int j, k, ok = 0;
        for (j = next; j < 3 && !ok; j++) { int want = DLEN[j] < RBUF ? DLEN[j] : RBUF; if (dg_len[i] != want) continue; ok = 1; for (k = 0; k < want; k++) if (dg_data[i][k] != (unsigned char)(0x10 * (j + 1) + k)) ok = 0; if (ok) next = j + 1; }
        if (!ok) mc_fail("C09", "dgram/not-a-sent-datagram", "received datagram %d (%d bytes, first byte %#x) is not one of the sent datagrams cut to the %d-byte buffer", i, dg_len[i], dg_data[i][0], RBUF);
        if (dg_port[i] != sender_port) mc_fail("C09", "dgram/sender-address", "receive_from reported port %d, the sender is bound to %d", dg_port[i], sender_port);
    }
    if (dg_n) mc_nontrivial(0);
    p_socket_free(lsock); p_socket_address_free(laddr);
    mc_outcome("received=%d", dg_n);
}

/* ------------------------------------------------------------------ pending connect: a listener whose accept queue is full never completes the handshake.
 * A blocking connect with a time-out must report the time-out (not before it has elapsed, whatever interrupts the wait), a non-blocking one "in progress";
 * neither may report a connection.  argument: b<timeout> | n */
static void h_pending(int argc, char **argv)
{
    struct sockaddr_in sa; int ls, fill, fl, port = 5577, blocking = argc < 1 || argv[0][0] == 'b', tmo = (argc > 0 && argv[0][0] == 'b' && argv[0][1]) ? atoi(argv[0] + 1) : 50;
    PSocket *c; PSocketAddress *a; PError *e = NULL; pboolean ok; unsigned long t0;
    sigpipe_state(); FAM = 4;
    memset(&sa, 0, sizeof sa); sa.sin_family = AF_INET; sa.sin_port = htons(port); sa.sin_addr.s_addr = htonl(INADDR_LOOPBACK);
    ls = socket(AF_INET, SOCK_STREAM, 0);
    if (ls < 0 || bind(ls, (struct sockaddr *)&sa, sizeof sa) < 0 || listen(ls, 0) < 0) mc_fail("C09", "setup", "listener set-up failed");
    fill = socket(AF_INET, SOCK_STREAM, 0); fl = fcntl(fill, F_GETFL); fcntl(fill, F_SETFL, fl | O_NONBLOCK);
    while (connect(fill, (struct sockaddr *)&sa, sizeof sa) < 0) { if (errno == EINTR) continue; if (errno == EINPROGRESS || errno == EALREADY) break; mc_fail("C09", "setup", "filler connect failed (errno %d)", errno); }
    c = p_socket_new(P_SOCKET_FAMILY_INET, P_SOCKET_TYPE_STREAM, P_SOCKET_PROTOCOL_TCP, NULL); a = p_socket_address_new("127.0.0.1", (puint16)port);
    p_socket_set_blocking(c, blocking ? TRUE : FALSE); p_socket_set_timeout(c, tmo);
    t0 = ksim_clock_ms;
    ok = p_socket_connect(c, a, &e);
    if (ok || p_socket_is_connected(c)) mc_fail("C09", "pending-connect/reported-connected", "connect to a listener that never completes the handshake reported a connection (result %d, is_connected %d)", (int)ok, (int)p_socket_is_connected(c));
    if (blocking) {
        if (!e || p_error_get_code(e) != (pint)P_ERROR_IO_TIMED_OUT) { bad_error("client", "connect", e, 1); mc_fail("C09", "pending-connect/wrong-error", "blocking connect that cannot complete failed with code %d instead of a time-out", e ? p_error_get_code(e) : 0); }
        if (ksim_clock_ms - t0 < (unsigned long)tmo) mc_fail("C09", "timed-out-early/connect", "connect reported a time-out after %lu ms of (virtual) time, the socket's time-out is %d ms", ksim_clock_ms - t0, tmo);
    } else if (!e || p_error_get_code(e) != (pint)P_ERROR_IO_IN_PROGRESS) mc_fail("C09", "pending-connect/wrong-error", "non-blocking connect that cannot complete failed with code %d instead of in-progress", e ? p_error_get_code(e) : 0);
    if (e) p_error_free(e);
    /* asking again while the handshake is still pending is answered the same way (the kernel says EALREADY this time) */
    e = NULL; t0 = ksim_clock_ms;
    ok = p_socket_connect(c, a, &e);
    if (ok || p_socket_is_connected(c)) mc_fail("C09", "pending-connect/reported-connected", "a second connect on a socket whose handshake is still pending reported a connection");
    if (blocking) {
        if (!e || p_error_get_code(e) != (pint)P_ERROR_IO_TIMED_OUT) { bad_error("client", "connect", e, 1); mc_fail("C09", "pending-connect/wrong-error-second-call", "second blocking connect on a pending handshake failed with code %d instead of a time-out", e ? p_error_get_code(e) : 0); }
        if (ksim_clock_ms - t0 < (unsigned long)tmo) mc_fail("C09", "timed-out-early/connect", "second connect reported a time-out after %lu ms of (virtual) time, the socket's time-out is %d ms", ksim_clock_ms - t0, tmo);
    } else if (!e || p_error_get_code(e) != (pint)P_ERROR_IO_IN_PROGRESS) mc_fail("C09", "pending-connect/wrong-error-second-call", "second non-blocking connect on a pending handshake failed with code %d instead of in-progress", e ? p_error_get_code(e) : 0);
    if (e) p_error_free(e);
    p_socket_free(c); p_socket_address_free(a); close(fill); close(ls);
    mc_nontrivial(0);
    mc_outcome("ok");
}

/* ------------------------------------------------------------------ two threads wait in accept on one blocking listener with a time-out, one connection arrives:
 * one of them gets it; the other finds nothing to accept after being woken and must go on waiting until its time-out (a timed-out error, not before T) */
static int acc_ok[2], acc_code[2]; static unsigned long acc_dt[2];
static void *acceptor(void *arg)
{
    int me = arg != NULL; PError *e = NULL; unsigned long t0 = ksim_clock_ms; PSocket *a = p_socket_accept(lsock, &e);
    acc_ok[me] = a != NULL; acc_code[me] = e ? p_error_get_code(e) : 0; acc_dt[me] = ksim_clock_ms - t0;
    if (e) p_error_free(e);
    p_socket_free(a);
    return NULL;
}
static void *one_client(void *arg) { PSocket *c = p_socket_new(fam(), P_SOCKET_TYPE_STREAM, P_SOCKET_PROTOCOL_TCP, NULL); (void)arg; if (!c || !p_socket_connect(c, laddr, NULL)) mc_fail("C09", "setup", "connect failed"); p_socket_free(c); return NULL; }
static void h_accept2(int argc, char **argv)
{
    int a, b, c, i; (void)argc; (void)argv;
    sigpipe_state(); FAM = 4; listen_setup(P_SOCKET_TYPE_STREAM);
    p_socket_set_timeout(lsock, 50);
    a = mc_thread_create(acceptor, NULL); b = mc_thread_create(acceptor, (void *)1); c = mc_thread_create(one_client, NULL);
    mc_thread_join(a); mc_thread_join(b); mc_thread_join(c);
    if (acc_ok[0] + acc_ok[1] != 1) mc_fail("C09", "accept2/connection-count", "one connection arrived, %d accept calls returned a socket", acc_ok[0] + acc_ok[1]);
    for (i = 0; i < 2; i++) if (!acc_ok[i]) {
        if (acc_code[i] != (int)P_ERROR_IO_TIMED_OUT) mc_fail("C09", "accept2/loser-wrong-error", "the accept that found nothing to take failed with code %d instead of a time-out (blocking socket with a time-out)", acc_code[i]);
        if (acc_dt[i] < 50) mc_fail("C09", "timed-out-early/accept", "accept reported a time-out after %lu ms of (virtual) time, the socket's time-out is 50 ms", acc_dt[i]);
    }
    p_socket_free(lsock); p_socket_address_free(laddr);
    mc_nontrivial(0);
    mc_outcome("ok %d%d", acc_ok[0], acc_ok[1]);
}

/* ------------------------------------------------------------------ peer gone */
static void *pg_client(void *arg) { PSocket *c = p_socket_new(fam(), P_SOCKET_TYPE_STREAM, P_SOCKET_PROTOCOL_TCP, NULL); (void)arg; if (!c || !p_socket_connect(c, laddr, NULL)) mc_fail("C09", "setup", "connect failed"); p_socket_free(c); return NULL; }
static void h_peergone(int argc, char **argv)
{
    PSocket *a; PError *e = NULL; int t, i, errors = 0; (void)argc; (void)argv;
    sigpipe_state();
    listen_setup(P_SOCKET_TYPE_STREAM);
    t = mc_thread_create(pg_client, NULL);
    a = p_socket_accept(lsock, &e);
    if (!a) mc_fail("C09", "stream/accept-failed", "accept failed");
    mc_thread_join(t);                    /* the peer has closed */
    for (i = 0; i < 3; i++) { pssize r; e = NULL; r = p_socket_send(a, "xy", 2, &e); if (r < 0) { errors++; bad_error("server", "send", e, 1); p_error_free(e); } }
    if (!errors) mc_fail("C09", "peergone/no-error", "three sends to a peer that has closed all reported success");
    /* the same through p_socket_send_to, which is legal on a connected stream socket: an error, never a signal */
    for (i = 0; i < 2; i++) { pssize r; e = NULL; r = p_socket_send_to(a, laddr, "xy", 2, &e); if (r < 0) { bad_error("server", "send_to", e, 1); p_error_free(e); } else mc_fail("C09", "peergone/no-error", "send_to to a peer that has gone reported success after send had already failed"); }
    p_socket_free(a); p_socket_free(lsock); p_socket_address_free(laddr);
    mc_nontrivial(0);
    mc_outcome("errors=%d", errors);
}

/* ------------------------------------------------------------------ stalled reader: a blocking sender with a time-out, a message longer than the stream buffer and a peer that does not read.
 * Whatever a send call returns (a count or -1), the bytes that reached the peer are never more than the bytes the sender was told were sent: a caller that retries after
 * a failure would otherwise duplicate them in the stream. */
static PSocket *st_acc;
static void *st_acceptor(void *arg) { (void)arg; st_acc = p_socket_accept(lsock, NULL); if (!st_acc) mc_fail("C09", "stream/accept-failed", "accept failed"); return NULL; }
static void h_stalled(int argc, char **argv)
{
    PSocket *c; int t, off = 0, got_n = 0, calls = 0, failed = 0, i; static unsigned char msg[20], gotb[64]; (void)argc; (void)argv;
    sigpipe_state(); FAM = 4; listen_setup(P_SOCKET_TYPE_STREAM);
    for (i = 0; i < 20; i++) msg[i] = (unsigned char)(0x41 + i);
    t = mc_thread_create(st_acceptor, NULL);
    c = p_socket_new(fam(), P_SOCKET_TYPE_STREAM, P_SOCKET_PROTOCOL_TCP, NULL);
    if (!c || !p_socket_connect(c, laddr, NULL)) mc_fail("C09", "stream/connect-failed", "connect failed");
    mc_thread_join(t);
    p_socket_set_timeout(c, 50);
    while (off < 20 && calls < 6) {
        PError *e = NULL; pssize r = p_socket_send(c, (pchar *)msg + off, 20 - off, &e); calls++;
        if (r < 0) { failed = 1; if (!e || p_error_get_code(e) != (pint)P_ERROR_IO_TIMED_OUT) { bad_error("client", "send", e, 1); mc_fail("C09", "stalled/wrong-error", "send to a peer that does not read failed with code %d instead of a time-out", e ? p_error_get_code(e) : 0); } p_error_free(e); break; }
        if (r == 0 || r > 20 - off) mc_fail("C09", "stream/send-count", "p_socket_send returned %ld for a request of %d bytes", (long)r, 20 - off);
        off += (int)r;
    }
    /* now the peer drains what arrived */
    p_socket_set_blocking(st_acc, FALSE);
    for (;;) { pssize r = p_socket_receive(st_acc, (pchar *)gotb + got_n, 8, NULL); if (r <= 0) break; got_n += (int)r; if (got_n > 40) break; }
    if (got_n > off) mc_fail("C09", "stalled/delivered-bytes-not-reported", "the sender was told %d bytes were sent (last call %s), %d bytes reached the peer: a retry after the failure duplicates %d bytes in the stream", off, failed ? "failed with a time-out" : "succeeded", got_n, got_n - off);
    if (memcmp(gotb, msg, (size_t)got_n)) mc_fail("C09", "stream/bytes-changed", "the %d bytes that reached the peer are not a prefix of the message", got_n);
    p_socket_free(c); p_socket_free(st_acc); p_socket_free(lsock); p_socket_address_free(laddr);
    mc_nontrivial(failed ? 1 : 0);
    mc_outcome("reported=%d arrived=%d failed=%d", off, got_n, failed);
}

static const McHarness HS[] = { {"stream", h_stream, "<msglen> <sendchunk> <recvbuf> <cli-blocking> <srv-blocking> <family>"}, {"dgram", h_dgram, "<recvbuf> <family>"}, {"peergone", h_peergone, ""}, {"halfclose", h_halfclose, ""},
    {"accept2", h_accept2, "two acceptors, one connection"}, {"stalled", h_stalled, "blocking sender with a time-out, reader that does not read"},
    {"pending", h_pending, "<b<timeout>|n>: connect to a listener that never completes the handshake"} };
int main(int argc, char **argv) { return mc_main(argc, argv, HS, (int)(sizeof HS / sizeof HS[0])); }
