/* C06 / C07 / C08 concurrent parts: named semaphore, shared memory and shared-memory buffer under the controlled
 * scheduler.  Kernel objects are real; every IPC system call is a scheduling point; each participant is a thread with
 * its own handle (the same code path a separate process runs).
 *
 *  sem <threads> <init>          own handles of one name, acquire / section / release; second name untouched
 *  shmcreate <participants>      concurrent first-time p_shm_new on a fresh name, then lock; counter++; unlock
 *  shmlock <participants>        segment created by main first; participants open, lock; counter++; unlock
 *  shmbuf <script> <script> ...  own PShmBuffer handles of one name; script chars: w = write 2 bytes, r = read up to 3 bytes, u = used space, c = clear,
 *                                X = write of capacity + 1 bytes (must be refused, change nothing - and leave the buffer's lock a lock)
 */
#include <plibsys.h>
#include "mc.h"
#include <stdio.h>
#include <stdlib.h>
#include <string.h>

extern int ipcnames_live(char *buf, size_t sz);
static char NAME[64], NAME2[64];
static void mkname(void) { snprintf(NAME, sizeof NAME, "vfi_%ld_a", mc_exec_id()); snprintf(NAME2, sizeof NAME2, "vfi_%ld_b", mc_exec_id()); }
static void names_gone(const char *prop)
{
    char live[400];
    if (ipcnames_live(live, sizeof live)) mc_fail(prop, "names-left-after-owner-free", "IPC names still exist after every handle was freed by an owner: %s", live);
}

/* ------------------------------------------------------------------ sem */
static int sem_init_val, sem_inside;
MC_NOINSTR static void sem_enter(void) { if (++sem_inside > sem_init_val) mc_fail("C06", "sched/k-exclusion", "%d threads hold a unit of a semaphore created with %d unit(s)", sem_inside, sem_init_val); if (sem_inside >= 2) mc_exists(0); }
MC_NOINSTR static void sem_leave(void) { sem_inside--; }
static void *sem_thread(void *arg)
{
    PError *err = NULL; PSemaphore *s = p_semaphore_new(NAME, sem_init_val, P_SEM_ACCESS_OPEN, &err); (void)arg;
    if (!s) mc_fail("C06", "sched/open-failed", "p_semaphore_new(OPEN) failed while other threads open/free the same name: %s", err ? p_error_get_message(err) : "?");
    mc_mark();
    if (!p_semaphore_acquire(s, NULL)) mc_fail("C06", "sched/acquire-false", "p_semaphore_acquire returned FALSE");
    if (mc_in_call_blocked()) mc_nontrivial(0);
    sem_enter(); mc_step(); sem_leave();
    if (!p_semaphore_release(s, NULL)) mc_fail("C06", "sched/release-false", "p_semaphore_release returned FALSE");
    p_semaphore_free(s);
    return NULL;
}
static void h_sem(int argc, char **argv)
{
    int n = argc > 0 ? atoi(argv[0]) : 3, i, tid[6]; PSemaphore *owner, *other;
    sem_init_val = argc > 1 ? atoi(argv[1]) : 1;
    mkname();
    owner = p_semaphore_new(NAME, sem_init_val, P_SEM_ACCESS_OPEN, NULL);        /* the name exists for the whole run: participants only open it */
    other = p_semaphore_new(NAME2, 1, P_SEM_ACCESS_OPEN, NULL);
    if (!owner || !other) mc_fail("C06", "sched/open-failed", "initial p_semaphore_new failed");
    for (i = 0; i < n; i++) tid[i] = mc_thread_create(sem_thread, NULL);
    for (i = 0; i < n; i++) mc_thread_join(tid[i]);
    /* every unit is back; the other name still holds exactly its one unit */
    mc_mark();
    for (i = 0; i < sem_init_val; i++) p_semaphore_acquire(owner, NULL);
    p_semaphore_acquire(other, NULL);
    if (mc_in_call_blocked()) mc_fail("C06", "sched/units-lost", "after all threads released, the units are not all available (or the other name was affected)");
    p_semaphore_take_ownership(owner); p_semaphore_take_ownership(other);
    p_semaphore_free(owner); p_semaphore_free(other);
    names_gone("C06");
    mc_outcome("ok");
}

/* semcreate: two participants create (CREATE mode) a name that already exists, at the same time: CREATE succeeds whether or not the name exists,
 * also when the other one removes and re-creates it in between (which counter each of them ends up with is not judged) */
static void *semcreate_one(void *arg)
{
    PError *e = NULL; PSemaphore *s = p_semaphore_new(NAME, 1, P_SEM_ACCESS_CREATE, &e); (void)arg;
    if (!s) mc_fail("C06", "sched/create-race-failed", "p_semaphore_new in CREATE mode returned NULL (native code %d) while another participant created the same existing name", e ? p_error_get_native_code(e) : 0);
    p_semaphore_free(s);
    return NULL;
}
static void h_semcreate(int argc, char **argv)
{
    PSemaphore *first; int a, b; (void)argc; (void)argv;
    mkname();
    first = p_semaphore_new(NAME, 1, P_SEM_ACCESS_CREATE, NULL);
    if (!first) mc_fail("C06", "sched/new-failed", "p_semaphore_new failed on a fresh name");
    a = mc_thread_create(semcreate_one, NULL); b = mc_thread_create(semcreate_one, NULL);
    mc_thread_join(a); mc_thread_join(b);
    p_semaphore_take_ownership(first); p_semaphore_free(first);
    { PSemaphore *c = p_semaphore_new(NAME, 1, P_SEM_ACCESS_CREATE, NULL); if (c) { p_semaphore_take_ownership(c); p_semaphore_free(c); } }      /* whoever holds the name now: remove it */
    mc_nontrivial(0);
    mc_outcome("ok");
}

/* semrace: an OPEN-mode open races with the owner's free of the same name.  Whatever the order, a handle that is returned
 * must see either the existing counter (1 unit) or a fresh one with the requested value (2 units): at least one acquire succeeds */
static void *semrace_opener(void *arg)
{
    PSemaphore *s = p_semaphore_new(NAME, 2, P_SEM_ACCESS_OPEN, NULL); (void)arg;
    if (s) {
        mc_mark();
        p_semaphore_acquire(s, NULL);            /* blocks forever (reported as deadlock) if the handle got a counter of 0 */
        if (mc_in_call_blocked()) mc_fail("C06", "sched/open-race-zero-counter", "a handle opened while the owner freed the name sees a counter that is neither the existing one (1) nor a fresh one with the requested value (2)");
        p_semaphore_take_ownership(s); p_semaphore_free(s);
        mc_nontrivial(1);
    } else mc_nontrivial(2);
    return NULL;
}
static void h_semrace(int argc, char **argv)
{
    PSemaphore *owner; int t; (void)argc; (void)argv;
    mkname();
    owner = p_semaphore_new(NAME, 1, P_SEM_ACCESS_OPEN, NULL);
    t = mc_thread_create(semrace_opener, NULL);
    p_semaphore_free(owner);                   /* creator = owner: removes the name */
    mc_thread_join(t);
    names_gone("C06");
    mc_outcome("ok");
}

/* ------------------------------------------------------------------ shm */
static int shm_holders, shm_success, shm_failed;
static const char *shm_mode = "lockers";      /* "creators": nobody created the segment beforehand (concurrent first-time open) */
static const char *ssig(const char *what) { static char b[4][96]; static int k; k = (k + 1) & 3; snprintf(b[k], sizeof b[k], "sched/%s/%s", shm_mode, what); return b[k]; }
MC_NOINSTR static void shm_enter(void) { if (++shm_holders > 1) mc_fail("C07", ssig("lock-exclusion"), "two participants are inside p_shm_lock/p_shm_unlock of the same name at once"); }
MC_NOINSTR static void shm_leave(void) { shm_holders--; }
MC_NOINSTR static void shm_count(int ok) { if (ok) shm_success++; else shm_failed++; }
static PShm *shm_handles[4];
static void *shm_thread(void *arg)
{
    int me = (int)(long)arg; PError *err = NULL; PShm *h = p_shm_new(NAME, 64, P_SHM_ACCESS_READWRITE, &err); long *ctr;
    if (!h) { shm_count(0); mc_fail("C07", ssig("open-failed"), "p_shm_new failed for a participant while another participant creates the same name: %s (code %d)", err ? p_error_get_message(err) : "?", err ? p_error_get_code(err) : 0); }
    shm_count(1);
    shm_handles[me] = h;
    if (p_shm_get_size(h) != 64) mc_fail("C07", ssig("size"), "participant sees size %lu, every participant asked for 64", (unsigned long)p_shm_get_size(h));
    mc_mark();
    if (!p_shm_lock(h, NULL)) mc_fail("C07", ssig("lock-false"), "p_shm_lock returned FALSE");
    if (mc_in_call_blocked()) mc_nontrivial(0);
    shm_enter();
    ctr = (long *)p_shm_get_address(h);
    mc_name(ctr, sizeof *ctr, shm_mode[0] == 'c' ? "shm.creators.counter" : "shm.lockers.counter");
    mc_step();
    *ctr = *ctr + 1;
    mc_step();
    shm_leave();
    if (!p_shm_unlock(h, NULL)) mc_fail("C07", ssig("unlock-false"), "p_shm_unlock returned FALSE");
    return NULL;
}
static void shm_run(int n, int precreate)
{
    int i, tid[4]; PShm *first = NULL; long total;
    mkname();
    shm_mode = precreate ? "lockers" : "creators";
    if (precreate) { first = p_shm_new(NAME, 64, P_SHM_ACCESS_READWRITE, NULL); if (!first) mc_fail("C07", ssig("new-failed"), "p_shm_new failed"); }
    for (i = 0; i < n; i++) tid[i] = mc_thread_create(shm_thread, (void *)(long)i);
    for (i = 0; i < n; i++) mc_thread_join(tid[i]);
    total = *(long *)p_shm_get_address(shm_handles[0]);
    if (total != n) mc_fail("C07", ssig("same-bytes"), "counter in the segment is %ld after %d participants incremented it under the lock: handles do not address the same bytes or the lock did not exclude", total, n);
    for (i = 0; i < n; i++) { long v = *(long *)p_shm_get_address(shm_handles[i]); if (v != total) mc_fail("C07", ssig("same-bytes"), "handle %d reads %ld, handle 0 reads %ld at the same offset", i, v, total); }
    p_shm_take_ownership(shm_handles[0]);
    for (i = n - 1; i >= 0; i--) p_shm_free(shm_handles[i]);
    if (first) p_shm_free(first);
    { char live[400]; if (ipcnames_live(live, sizeof live)) mc_fail("C07", ssig("names-left-after-owner-free"), "IPC names still exist after every handle was freed by an owner: %s", live); }
    mc_outcome("total=%ld", total);
}
static void h_shmcreate(int argc, char **argv) { shm_run(argc > 0 ? atoi(argv[0]) : 2, 0); }
static void h_shmlock(int argc, char **argv) { shm_run(argc > 0 ? atoi(argv[0]) : 2, 1); }

/* shmrace: p_shm_new of an existing name races with the owner's free.  The racing open may fail cleanly or get a handle; afterwards
 * (every handle freed by an owner) the name must be gone and a new p_shm_new must give a fresh zero-filled segment of the new size */
static void *shmrace_opener(void *arg)
{
    PShm *h = p_shm_new(NAME, 64, P_SHM_ACCESS_READWRITE, NULL); (void)arg;
    if (h) { p_shm_take_ownership(h); p_shm_free(h); mc_nontrivial(1); } else mc_nontrivial(2);
    return NULL;
}
static void h_shmrace(int argc, char **argv)
{
    PShm *owner, *fresh; int t; char live[400]; (void)argc; (void)argv;
    mkname(); shm_mode = "openrace";
    owner = p_shm_new(NAME, 64, P_SHM_ACCESS_READWRITE, NULL);
    if (!owner) mc_fail("C07", ssig("new-failed"), "p_shm_new failed");
    ((char *)p_shm_get_address(owner))[5] = 7;
    t = mc_thread_create(shmrace_opener, NULL);
    p_shm_free(owner);                          /* creator = owner: removes the names */
    mc_thread_join(t);
    if (ipcnames_live(live, sizeof live)) mc_fail("C07", ssig("names-left-after-owner-free"), "IPC names still exist after every handle was freed by an owner: %s", live);
    fresh = p_shm_new(NAME, 8192, P_SHM_ACCESS_READWRITE, NULL);
    if (!fresh) mc_fail("C07", ssig("fresh-new-failed"), "after the owner free (raced by an open) p_shm_new cannot create the name again");
    if (p_shm_get_size(fresh) != 8192 || ((char *)p_shm_get_address(fresh))[5] != 0) mc_fail("C07", ssig("fresh-not-fresh"), "p_shm_new after the owner free returned size %lu / old data", (unsigned long)p_shm_get_size(fresh));
    p_shm_free(fresh);
    mc_outcome("ok");
}

/* ------------------------------------------------------------------ shm buffer */
#define CAP 4
typedef struct { char op; int res; unsigned char data[4]; int n; } BOp;
typedef struct { int n; BOp op[4]; } BThread;
static BThread BT[3]; static int nbt;
static unsigned char next_byte[3];
static void *buf_thread(void *arg)
{
    int me = (int)(long)arg, i; PShmBuffer *b = p_shm_buffer_new(NAME, CAP, NULL);
    if (!b) mc_fail("C08", "sched/open-failed", "p_shm_buffer_new failed on an existing buffer");
    for (i = 0; i < BT[me].n; i++) {
        BOp *o = &BT[me].op[i];
        if (o->op == 'w') { o->data[0] = (unsigned char)(16 * (me + 1) + next_byte[me]++); o->data[1] = (unsigned char)(16 * (me + 1) + next_byte[me]++); o->n = 2; o->res = (int)p_shm_buffer_write(b, o->data, 2, NULL); }
        else if (o->op == 'X') { unsigned char big[CAP + 1]; memset(big, 0xEE, sizeof big); o->res = (int)p_shm_buffer_write(b, big, CAP + 1, NULL); o->n = 0; }
        else if (o->op == 'r') { memset(o->data, 0, 4); o->res = p_shm_buffer_read(b, o->data, 3, NULL); o->n = o->res > 0 ? o->res : 0; }
        else if (o->op == 'u') { o->res = (int)p_shm_buffer_get_used_space(b, NULL); }
        else if (o->op == 'c') { p_shm_buffer_clear(b); o->res = 0; }
    }
    p_shm_buffer_free(b);
    return NULL;
}
/* sequential reference: byte deque of capacity CAP */
static int seq_search(int *pos, unsigned char *q, int qn)
{
    int t, done = 1;
    for (t = 0; t < nbt; t++) if (pos[t] < BT[t].n) {
        BOp *o = &BT[t].op[pos[t]]; unsigned char q2[8]; int qn2 = qn, ok = 0;
        done = 0; memcpy(q2, q, 8);
        if (o->op == 'w') { if (CAP - qn >= 2) { ok = o->res == 2; q2[qn2++] = o->data[0]; q2[qn2++] = o->data[1]; } else ok = o->res == 0; }
        else if (o->op == 'r') { int want = qn < 3 ? qn : 3; ok = o->res == want && !memcmp(o->data, q, want); memmove(q2, q2 + want, qn - want); qn2 = qn - want; }
        else if (o->op == 'u') ok = o->res == qn;
        else if (o->op == 'X') ok = o->res == 0;
        else { qn2 = 0; ok = 1; }
        if (ok) { pos[t]++; if (seq_search(pos, q2, qn2)) { pos[t]--; return 1; } pos[t]--; }
    }
    return done;
}
static void h_shmbuf(int argc, char **argv)
{
    int i, k, tid[3], pos[3] = {0, 0, 0}; PShmBuffer *owner; unsigned char q[8]; char desc[300]; size_t o = 0;
    mkname();
    owner = p_shm_buffer_new(NAME, CAP, NULL);
    if (!owner) mc_fail("C08", "sched/new-failed", "p_shm_buffer_new failed");
    nbt = argc > 3 ? 3 : argc;
    for (i = 0; i < nbt; i++) { BT[i].n = (int)strlen(argv[i]) > 4 ? 4 : (int)strlen(argv[i]); for (k = 0; k < BT[i].n; k++) BT[i].op[k].op = argv[i][k]; }
    for (i = 0; i < nbt; i++) tid[i] = mc_thread_create(buf_thread, (void *)(long)i);
    for (i = 0; i < nbt; i++) mc_thread_join(tid[i]);
    for (i = 0; i < nbt; i++) for (k = 0; k < BT[i].n; k++) { BOp *b = &BT[i].op[k]; o += snprintf(desc + o, sizeof desc - o, "T%d:%c=%d", i, b->op, b->res); if (b->op == 'r' && b->n) { int j; o += snprintf(desc + o, sizeof desc - o, "["); for (j = 0; j < b->n; j++) o += snprintf(desc + o, sizeof desc - o, "%02x", b->data[j]); o += snprintf(desc + o, sizeof desc - o, "]"); } o += snprintf(desc + o, sizeof desc - o, " "); }
    if (!seq_search(pos, q, 0)) mc_fail("C08", "sched/not-linearizable", "results of the concurrent operations are not those of any sequential order on a FIFO byte queue of capacity %d: %s", CAP, desc);
    { pssize u = p_shm_buffer_get_used_space(owner, NULL), f = p_shm_buffer_get_free_space(owner, NULL); if (u + f != CAP) mc_fail("C08", "sched/used-plus-free", "used %ld + free %ld != capacity %d after the run", (long)u, (long)f, CAP); }
    p_shm_buffer_take_ownership(owner); p_shm_buffer_free(owner);
    names_gone("C08");
    mc_nontrivial(0);
    mc_outcome("%s", desc);
}

static const McHarness HS[] = {
    {"sem", h_sem, "<threads> <init>"}, {"semrace", h_semrace, ""}, {"semcreate", h_semcreate, ""}, {"shmcreate", h_shmcreate, "<participants>"}, {"shmlock", h_shmlock, "<participants>"}, {"shmrace", h_shmrace, ""}, {"shmbuf", h_shmbuf, "<script>..."},
};
int main(int argc, char **argv) { return mc_main(argc, argv, HS, (int)(sizeof HS / sizeof HS[0])); }
