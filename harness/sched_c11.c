/* C11 under the controlled scheduler: hash objects are independent of each other.  Two threads, each with its own PCryptoHash of the same
 * algorithm, hash different multi-block messages at the same time; the digests must equal the ones computed one after the other, and the
 * happens-before monitor must stay silent (any module-level scratch state shared between objects is a data race).
 * harness: pair <algorithm index 0..10>
 */
#include <plibsys.h>
#include "mc.h"
#include <string.h>
#include <stdio.h>

static const PCryptoHashType TYPES[] = {P_CRYPTO_HASH_TYPE_MD5, P_CRYPTO_HASH_TYPE_SHA1, P_CRYPTO_HASH_TYPE_SHA2_224, P_CRYPTO_HASH_TYPE_SHA2_256, P_CRYPTO_HASH_TYPE_SHA2_384,
                                        P_CRYPTO_HASH_TYPE_SHA2_512, P_CRYPTO_HASH_TYPE_SHA3_224, P_CRYPTO_HASH_TYPE_SHA3_256, P_CRYPTO_HASH_TYPE_SHA3_384, P_CRYPTO_HASH_TYPE_SHA3_512, P_CRYPTO_HASH_TYPE_GOST};
static int ALG;
static unsigned char msg[2][300]; static char want[2][140], got[2][140];

static void digest_of(int i, char *out)
{
    PCryptoHash *h = p_crypto_hash_new(TYPES[ALG]); pchar *s;
    if (!h) mc_fail("C11", "new-failed", "p_crypto_hash_new returned NULL");
    p_crypto_hash_update(h, msg[i], 150); p_crypto_hash_update(h, msg[i] + 150, 150);
    s = p_crypto_hash_get_string(h);
    if (!s) mc_fail("C11", "get_string-failed", "p_crypto_hash_get_string returned NULL");
    snprintf(out, 140, "%s", s); p_free(s); p_crypto_hash_free(h);
}
static void *worker(void *a) { int i = a != NULL; digest_of(i, got[i]); return NULL; }

static void h_pair(int argc, char **argv)
{
    int i, k, a, b;
    ALG = argc > 0 ? atoi(argv[0]) : 0; if (ALG < 0 || ALG > 10) ALG = 0;
    for (i = 0; i < 2; i++) for (k = 0; k < 300; k++) msg[i][k] = (unsigned char)(k * (i ? 7 : 13) + i);
    digest_of(0, want[0]); digest_of(1, want[1]);             /* one after the other */
    a = mc_thread_create(worker, NULL); b = mc_thread_create(worker, (void *)1);
    mc_thread_join(a); mc_thread_join(b);
    for (i = 0; i < 2; i++) if (strcmp(want[i], got[i])) { char sig[64]; snprintf(sig, sizeof sig, "concurrent-objects/digest-differs/%d", ALG); mc_fail("C11", sig, "algorithm %d: the digest of one object computed while another object was in use is %s, computed alone it is %s", ALG, got[i], want[i]); }
    mc_nontrivial(0);
    mc_outcome("ok");
}

static const McHarness HS[] = { {"pair", h_pair, "<algorithm index>"} };
int main(int argc, char **argv) { return mc_main(argc, argv, HS, 1); }
