/* C12 / C13 / C14: explicit-state BFS over the complete reachable state graph of a real PTree over K ordered keys.
 *
 * A state is the canonical pre-order dump of the *real* node structure (rank, colour / balance factor).  Library
 * objects cannot be copied, so a state is reached by replaying its shortest history on a fresh tree; the canonical
 * dump must then equal the stored one ("canon on replay", engine error otherwise).  From every state the whole
 * alphabet is applied; after each transition the tree is compared with a boring reference (arrays indexed by rank).
 *
 * White-box access: the four ptree sources are #included (compile error on refactor, never a wrong mirror struct).
 *
 * usage: tree_bfs <type 0|1|2> <K> <mode 0|1|2> [--replay ops]
 *   mode 0: p_tree_new_full with notifiers and comparator data     (C12 + C13 + C14)
 *   mode 1: p_tree_new (plain PCompareFunc, no notifiers)           (C12 + C13 + C14 "never frees or alters")
 *   mode 2: p_tree_new_with_data, no notifiers
 *   mode 3 / 4: p_tree_new_full with only the key / only the value notifier
 */
#include "ptree.c"
#include "ptree-bst.c"
#include "ptree-rb.c"
#include "ptree-avl.c"
#include <plibsys.h>
#include "hout.h"
#include <math.h>

#define MAXK 16
#define CANARY 0x5AFEC0DEu

typedef struct Obj { int rank; int serial; int destroyed; int inserted; int is_value; unsigned canary; } Obj;      /* inserted / destroyed count insertion events: the same object may be inserted again */

static int T, K, MODE;
static const char *TN[] = {"BST", "RB", "AVL"};
static int cookie;

/* ---------- object pool (never freed: identities stay unique over the whole run) ---------- */
static Obj *pool; static size_t pool_n, pool_cap;
static size_t pool_mark;
static Obj *obj_new(int rank, int is_value)
{
    if (pool_n == pool_cap) { fprintf(stderr, "object pool exhausted\n"); exit(2); }
    Obj *o = &pool[pool_n];
    o->rank = rank; o->serial = (int)pool_n; o->destroyed = 0; o->inserted = 1; o->is_value = is_value; o->canary = CANARY;
    pool_n++;
    return o;
}

/* ---------- violation reporting with per-signature dedupe ---------- */
static char cur_hist[1024];        /* history text of the transition being executed */
static int  fail_flag;             /* set when the current transition violated something */
static struct { char sig[160]; long n; } sigs[256]; static int nsigs;
static int replay_mode;

static void viol(const char *prop, const char *sig, const char *fmt, ...)
{
    char buf[2048], full[200]; va_list ap; int i;
    va_start(ap, fmt); vsnprintf(buf, sizeof buf, fmt, ap); va_end(ap);
    fail_flag = 1;
    snprintf(full, sizeof full, "%s/%s", TN[T], sig);
    if (replay_mode) printf("  !! %s %s: %s\n", prop, full, buf);
    for (i = 0; i < nsigs; i++) if (!strcmp(sigs[i].sig, full)) { sigs[i].n++; return; }
    if (nsigs < 256) { strcpy(sigs[nsigs].sig, full); sigs[nsigs].n = 1; nsigs++; }
    {
        char rp[1200];
        snprintf(rp, sizeof rp, "tree_bfs %d %d %d --replay %s", T, K, MODE, cur_hist);
        hout_viol(prop, full, rp, "%s tree, mode %d, K=%d, history [%s]: %s", TN[T], MODE, K, cur_hist, buf);
    }
}

/* ---------- comparator, notifiers, traversal callbacks ---------- */
static long cmp_calls;
static const char *cur_opname = "?";
static pint cmp_data(pconstpointer a, pconstpointer b, ppointer data)
{
    const Obj *x = a, *y = b;
    cmp_calls++;
    if (MODE != 1 && data != &cookie) viol("C12", "comparator-data", "comparator did not receive the user data pointer");
    if (x->canary != CANARY || y->canary != CANARY) { viol("C14", "key-altered", "comparator saw a key whose canary was overwritten"); return 0; }
    if ((x->serial >= 0 && x->destroyed >= x->inserted) || (y->serial >= 0 && y->destroyed >= y->inserted)) {
        char s[64]; snprintf(s, sizeof s, "use-after-destroy/%s", cur_opname);
        viol("C14", s, "comparator was handed a key that had already been passed to the key destroy notifier (rank %d serial %d)",
             (x->serial >= 0 && x->destroyed >= x->inserted) ? x->rank : y->rank, (x->serial >= 0 && x->destroyed >= x->inserted) ? x->serial : y->serial);
    }
    /* a comparator only promises the sign: mode 0 returns the difference of the ranks, mode 2 a multiple of it, the plain comparator of mode 1 (and 3, 4) -1 / 0 / 1 */
    if (MODE == 0) return x->rank - y->rank;
    if (MODE == 2) return (x->rank - y->rank) * 45;
    return x->rank < y->rank ? -1 : (x->rank > y->rank ? 1 : 0);
}
static pint cmp_plain(pconstpointer a, pconstpointer b) { return cmp_data(a, b, &cookie); }

#define MAXLOG 64
static Obj *dlog[MAXLOG]; static int dlog_n; static int dlog_overflow;
static void key_destroy(ppointer p)   { if (dlog_n < MAXLOG) dlog[dlog_n++] = p; else dlog_overflow = 1; }
static void value_destroy(ppointer p) { if (dlog_n < MAXLOG) dlog[dlog_n++] = p; else dlog_overflow = 1; }

typedef struct { int stop_after; int n; Obj *k[MAXK + 2]; Obj *v[MAXK + 2]; int overflow; } Trav;
static pboolean trav_cb(ppointer key, ppointer value, ppointer data)
{
    Trav *t = data;
    if (t->n < MAXK + 2) { t->k[t->n] = key; t->v[t->n] = value; t->n++; } else t->overflow = 1;
    return (t->stop_after > 0 && t->n >= t->stop_after) ? TRUE : FALSE;
}

/* ---------- reference model ---------- */
typedef struct { Obj *key[MAXK]; Obj *val[MAXK]; } Ref;
static int ref_count(const Ref *r) { int i, n = 0; for (i = 0; i < K; i++) n += r->key[i] != NULL; return n; }

/* ---------- white-box dump ---------- */
static int dump_budget;
static int node_tag(PTreeBaseNode *n)
{
    if (T == 1) return ((PTreeRBNode *)n)->color == P_TREE_RB_COLOR_RED ? 'r' : (((PTreeRBNode *)n)->color == P_TREE_RB_COLOR_BLACK ? 'b' : '?');
    if (T == 2) { int bf = ((PTreeAVLNode *)n)->balance_factor; return bf == 0 ? '0' : bf == 1 ? '+' : bf == -1 ? '-' : (bf > 0 ? 'P' : 'M'); }
    return '.';
}
static PTreeBaseNode *node_parent(PTreeBaseNode *n)
{
    if (T == 1) return (PTreeBaseNode *)((PTreeRBNode *)n)->parent;
    if (T == 2) return (PTreeBaseNode *)((PTreeAVLNode *)n)->parent;
    return NULL;
}
static char *dump_rec(PTreeBaseNode *n, PTreeBaseNode *parent, char *p, char *end, int *bad)
{
    if (!n) { if (p < end) *p++ = '-'; return p; }
    if (--dump_budget < 0) { *bad = 1; return p; }          /* cycle (e.g. a left-over Morris thread) */
    if (T != 0 && node_parent(n) != parent) *bad = 2;
    {
        Obj *k = n->key;
        p += snprintf(p, end - p, "(%d%c", k ? k->rank : -1, node_tag(n));
    }
    p = dump_rec(n->left, n, p, end, bad);
    p = dump_rec(n->right, n, p, end, bad);
    if (p < end) *p++ = ')';
    return p;
}
static int canon(PTree *t, char *buf, size_t sz)
{
    int bad = 0; char *p;
    dump_budget = 4 * MAXK;
    p = dump_rec(t->root, NULL, buf, buf + sz - 1, &bad);
    *p = 0;
    return bad;
}

/* in-order check against the reference: ranks ascending, identities equal */
static int inorder(PTreeBaseNode *n, Obj **ks, Obj **vs, int cnt)
{
    if (!n || cnt > MAXK) return cnt;
    cnt = inorder(n->left, ks, vs, cnt);
    if (cnt <= MAXK) { ks[cnt] = n->key; vs[cnt] = n->value; cnt++; }
    return inorder(n->right, ks, vs, cnt);
}

static int height(PTreeBaseNode *n) { int a, b; if (!n) return 0; a = height(n->left); b = height(n->right); return 1 + (a > b ? a : b); }

/* C13 AVL: recomputed heights differ by <= 1 at every node; returns -1 on violation */
static int avl_check(PTreeBaseNode *n, int *stored_bad)
{
    int a, b;
    if (!n) return 0;
    a = avl_check(n->left, stored_bad); if (a < 0) return -1;
    b = avl_check(n->right, stored_bad); if (b < 0) return -1;
    if (a - b > 1 || b - a > 1) return -1;
    if (((PTreeAVLNode *)n)->balance_factor != b - a && ((PTreeAVLNode *)n)->balance_factor != a - b) *stored_bad = 1;
    return 1 + (a > b ? a : b);
}
/* C13 RB: does the shape admit a red-black colouring?  returns bitmask of achievable black heights of the subtree
 * (bit h set: colouring exists with black-height h), given whether the parent is red */
static unsigned rb_admit(PTreeBaseNode *n, int parent_red)
{
    unsigned lb, rb_, m = 0;
    if (!n) return 1u;                                   /* black height 0 */
    lb = rb_admit(n->left, 0); rb_ = rb_admit(n->right, 0);
    m |= (lb & rb_) << 1;                                  /* this node black */
    if (!parent_red) { lb = rb_admit(n->left, 1); rb_ = rb_admit(n->right, 1); m |= (lb & rb_); }   /* this node red */
    return m;
}
static unsigned rb_admit_root(PTreeBaseNode *n)
{
    unsigned lb, rb_;
    if (!n) return 1u;
    lb = rb_admit(n->left, 0); rb_ = rb_admit(n->right, 0);
    return (lb & rb_) << 1;
}
/* stored colouring valid? (diagnostic) returns black height or -1 */
static int rb_stored(PTreeBaseNode *n, int parent_red)
{
    int a, b, red;
    if (!n) return 0;
    red = ((PTreeRBNode *)n)->color == P_TREE_RB_COLOR_RED;
    if (red && parent_red) return -1;
    a = rb_stored(n->left, red); b = rb_stored(n->right, red);
    if (a < 0 || b < 0 || a != b) return -1;
    return a + (red ? 0 : 1);
}

static int max_cmp_allowed(int n)   /* lookup may compare against at most this many keys */
{
    if (T == 2) {                  /* AVL: largest h with minimal-node-count N(h) <= n (equals floor(1.4405 log2(n+2) - 0.3277)) */
        int h = 0; long a = 0, b = 1;              /* N(0)=0, N(1)=1 */
        if (n == 0) return 0;
        h = 1;
        while (a + b + 1 <= n) { long c = a + b + 1; a = b; b = c; h++; }
        return h;
    }
    if (T == 1) return (int)floor(2.0 * log2((double)n + 1.0) + 1e-9);
    return n;
}

/* ---------- statistics ---------- */
static long n_trans, n_trans_kind[8], n_rm_class[3], n_ins_new, n_ins_repl, n_foreach, n_lookup, n_restructure;
static long n_stored_colour_bad, n_stored_bf_bad, max_height, n_free_checks;

/* structural + C13 validation of the real tree against the reference */
static void validate(PTree *t, const Ref *ref, const char *opk)
{
    Obj *ks[MAXK + 2], *vs[MAXK + 2]; char s[96];
    int i, cnt, j = 0, n = ref_count(ref), bad;
    char cb[512];
    bad = canon(t, cb, sizeof cb);
    if (bad == 1) { snprintf(s, sizeof s, "structure-cycle/%s", opk); viol("C12", s, "node structure contains a cycle after %s (left-over traversal thread?) dump=%s", opk, cb); return; }
    if (bad == 2) { snprintf(s, sizeof s, "parent-link/%s", opk); viol("C12", s, "a parent link is inconsistent with the child links after %s: %s", opk, cb); }
    cnt = inorder(t->root, ks, vs, 0);
    if (cnt != n) { snprintf(s, sizeof s, "content/%s", opk); viol("C12", s, "tree holds %d nodes, reference map holds %d (dump %s)", cnt, n, cb); return; }
    /* no object that is still stored in the tree (and that lookup / foreach hand out) may have been given to a destroy notifier */
    for (i = 0; i < cnt && i < MAXK; i++) {
        Obj *o[2]; int w;
        o[0] = ks[i]; o[1] = vs[i];
        for (w = 0; w < 2; w++) if (o[w] >= pool && o[w] < pool + pool_n && o[w]->destroyed > o[w]->inserted - 1) {
            snprintf(s, sizeof s, "live-pair-destroyed/%s", opk);
            viol("C12", s, "the pair of rank %d is still in the tree (lookup and foreach return it) but its %s has been passed to the destroy notifier; dump %s", o[w]->rank, w ? "value" : "key", cb);
            snprintf(s, sizeof s, "destroyed-object-still-stored/%s", opk);
            viol("C14", s, "the %s of rank %d (serial %d) was passed to its destroy notifier although it did not leave the tree; dump %s", w ? "value" : "key", o[w]->rank, o[w]->serial, cb);
            return;
        }
    }
    for (i = 0; i < K; i++) if (ref->key[i]) {
        if (ks[j] != ref->key[i] || vs[j] != ref->val[i]) {
            snprintf(s, sizeof s, "content/%s", opk);
            viol("C12", s, "in-order position %d: tree has key rank %d serial %d, reference has rank %d serial %d (or value identity differs); dump %s",
                 j, ks[j] ? ks[j]->rank : -1, ks[j] ? ks[j]->serial : -1, i, ref->key[i]->serial, cb);
            return;
        }
        j++;
    }
    if (p_tree_get_nnodes(t) != n) { snprintf(s, sizeof s, "nnodes/%s", opk); viol("C12", s, "p_tree_get_nnodes = %d, distinct keys = %d", p_tree_get_nnodes(t), n); }
    {
        int h = height(t->root);
        if (h > max_height) max_height = h;
        if (T == 2) {
            int sb = 0;
            if (avl_check(t->root, &sb) < 0) { snprintf(s, sizeof s, "avl-balance/%s", opk); viol("C13", s, "AVL: two subtrees of a node differ in height by more than one after %s: %s", opk, cb); }
            else if (sb) n_stored_bf_bad++;
        } else if (T == 1) {
            if (rb_admit_root(t->root) == 0) { snprintf(s, sizeof s, "rb-shape/%s", opk); viol("C13", s, "red-black: shape admits no valid red-black colouring after %s: %s", opk, cb); }
            else if (rb_stored(t->root, 0) < 0 || (t->root && ((PTreeRBNode *)t->root)->color != P_TREE_RB_COLOR_BLACK)) n_stored_colour_bad++;
        }
        if (T != 0 && h > max_cmp_allowed(n)) { snprintf(s, sizeof s, "height-bound/%s", opk); viol("C13", s, "height %d exceeds the bound %d for n=%d: %s", h, max_cmp_allowed(n), n, cb); }
    }
    for (i = 0; i < (int)pool_n; i++) if (pool[i].canary != CANARY) { viol("C14", "object-altered", "a user key/value object was written to (serial %d)", i); break; }
}

/* all read-only operations, applied in a state; tree must stay unchanged */
static void readonly_ops(PTree *t, const Ref *ref)
{
    char before[512], after[512], s[96];
    int r, j, n = ref_count(ref), i;
    Obj probe;
    canon(t, before, sizeof before);
    probe.canary = CANARY; probe.destroyed = 0; probe.serial = -1; probe.is_value = 0;
    cur_opname = "lookup";
    for (r = 0; r < K; r++) {
        ppointer got; long c0 = cmp_calls;
        probe.rank = r;
        got = p_tree_lookup(t, &probe);
        n_lookup++;
        if (got != (ppointer)ref->val[r]) viol("C12", "lookup", "lookup(rank %d) returned %s, reference says %s", r, got ? "a value" : "NULL", ref->val[r] ? "another value" : "NULL");
        if (T != 0 && cmp_calls - c0 > max_cmp_allowed(n))
            viol("C13", "lookup-comparisons", "lookup(rank %d) compared against %ld keys, bound for n=%d is %d: %s", r, cmp_calls - c0, n, max_cmp_allowed(n), before);
    }
    cur_opname = "foreach";
    for (j = 0; j <= n; j++) {                 /* j = 0: never stop */
        Trav tv; int want = (j == 0) ? n : j, idx = 0;
        memset(&tv, 0, sizeof tv); tv.stop_after = j;
        p_tree_foreach(t, trav_cb, &tv);
        n_foreach++;
        if (tv.overflow || tv.n != want) { snprintf(s, sizeof s, "foreach-count/%s", j ? "stop" : "full"); viol("C12", s, "foreach(stop after %d) visited %d pairs, expected %d", j, tv.n, want); }
        else for (i = 0; i < K && idx < want; i++) if (ref->key[i]) {
            if (tv.k[idx] != ref->key[i] || tv.v[idx] != ref->val[i]) { snprintf(s, sizeof s, "foreach-order/%s", j ? "stop" : "full"); viol("C12", s, "foreach(stop after %d): visit %d was rank %d, expected rank %d", j, idx, tv.k[idx] ? tv.k[idx]->rank : -1, i); break; }
            idx++;
        }
        if (canon(t, after, sizeof after) || strcmp(before, after)) { snprintf(s, sizeof s, "foreach-modified/%s", j ? "stop" : "full"); viol("C12", s, "tree changed by foreach(stop after %d): before %s after %s", j, before, after); return; }
    }
    canon(t, after, sizeof after);
    if (strcmp(before, after)) viol("C12", "lookup-modified", "tree changed by lookups: before %s after %s", before, after);
    if (dlog_n) viol("C14", "destroy-log/readonly", "a destroy notifier ran during lookup/foreach");
}

/* ---------- operations ---------- */
enum { OP_INS, OP_REM, OP_CLR, OP_INSV, OP_INSK };      /* INSV / INSK: insert over an existing key handing in the value / key object that is already stored (inserted a second time) */
typedef struct { unsigned char kind, rank; } Op;

static PTree *tree_new(void)
{
    PTree *t;
    if (MODE == 0) t = p_tree_new_full((PTreeType)T, cmp_data, &cookie, key_destroy, value_destroy);
    else if (MODE == 3) t = p_tree_new_full((PTreeType)T, cmp_data, &cookie, key_destroy, NULL);
    else if (MODE == 4) t = p_tree_new_full((PTreeType)T, cmp_data, &cookie, NULL, value_destroy);
    else if (MODE == 1) t = p_tree_new((PTreeType)T, cmp_plain);
    else t = p_tree_new_with_data((PTreeType)T, cmp_data, &cookie);
    if (!t) { viol("C12", "new-failed", "the tree constructor returned NULL"); exit(1); }
    return t;
}

static int children_class(PTree *t, int rank)
{
    PTreeBaseNode *n = t->root;
    while (n) { int r = ((Obj *)n->key)->rank; if (rank < r) n = n->left; else if (rank > r) n = n->right; else break; }
    if (!n) return -1;
    return (n->left != NULL) + (n->right != NULL);
}

static void expect_log_i(Obj **want, int nwant, const char *opk, const char *cls)
{
    int i, j; char s[96];
    int used[MAXLOG] = {0};
    if (MODE == 1 || MODE == 2) { if (dlog_n) viol("C14", "destroy-log/no-notifier", "notifier called although none was given"); return; }
    if (MODE == 3 || MODE == 4) {      /* only one of the two notifiers was given: only that kind of object is expected */
        int k = 0;
        for (i = 0; i < nwant; i++) if (want[i]->is_value == (MODE == 4)) want[k++] = want[i];
        nwant = k;
    }
    snprintf(s, sizeof s, "destroy-log/%s%s%s", opk, cls[0] ? "/" : "", cls);
    if (dlog_overflow) { viol("C14", s, "destroy notifier called more than %d times in one operation", MAXLOG); return; }
    for (i = 0; i < nwant; i++) {
        for (j = 0; j < dlog_n; j++) if (!used[j] && dlog[j] == want[i]) { used[j] = 1; break; }
        if (j == dlog_n) { viol("C14", s, "%s: the %s of rank %d (serial %d) left the tree but was not passed to its destroy notifier", opk, want[i]->is_value ? "value" : "key", want[i]->rank, want[i]->serial); return; }
    }
    for (j = 0; j < dlog_n; j++) if (!used[j]) {
        Obj *o = dlog[j];
        viol("C14", s, "%s: destroy notifier received an object that did not leave the tree at this call (%s rank %d serial %d%s)", opk,
             o && o->is_value ? "value" : "key", o ? o->rank : -1, o ? o->serial : -1, o && o->destroyed >= o->inserted ? ", already destroyed before" : "");
        return;
    }
    for (j = 0; j < dlog_n; j++) if (dlog[j] && dlog[j]->destroyed >= dlog[j]->inserted) viol("C14", s, "%s: object destroyed more often than it was inserted", opk);
}
/* the objects handed to a notifier are marked destroyed whatever the verdict on the log was, so that validate() can tell
 * when a pair that is still in the tree (and that lookup / foreach hand out) has been destroyed */
static void expect_log(Obj **want, int nwant, const char *opk, const char *cls)
{
    int j;
    expect_log_i(want, nwant, opk, cls);
    for (j = 0; j < dlog_n; j++) if (dlog[j]) dlog[j]->destroyed++;
}

/* apply one op to (tree, ref); checks the transition oracles.  verbose for replay */
static void apply(PTree *t, Ref *ref, Op op, int check)
{
    Obj *want[2 * MAXK + 2]; int nw = 0, i;
    dlog_n = 0; dlog_overflow = 0;
    if (op.kind == OP_INS || op.kind == OP_INSV || op.kind == OP_INSK) {
        int existed = ref->key[op.rank] != NULL;
        Obj *k = (op.kind == OP_INSK && existed) ? ref->key[op.rank] : obj_new(op.rank, 0), *v = (op.kind == OP_INSV && existed) ? ref->val[op.rank] : obj_new(op.rank, 1);
        if (op.kind == OP_INSK && existed) k->inserted++;
        if (op.kind == OP_INSV && existed) v->inserted++;
        cur_opname = "insert";
        p_tree_insert(t, k, v);
        if (existed) { want[nw++] = ref->key[op.rank]; want[nw++] = ref->val[op.rank]; }
        if (check) { expect_log(want, nw, existed ? "replace" : "insert", ""); existed ? n_ins_repl++ : n_ins_new++; }
        else for (i = 0; i < dlog_n; i++) if (dlog[i]) dlog[i]->destroyed++;
        ref->key[op.rank] = k; ref->val[op.rank] = v;
        if (check) validate(t, ref, existed ? "replace" : "insert");
    } else if (op.kind == OP_REM) {
        Obj probe; pboolean res; int existed = ref->key[op.rank] != NULL;
        int cls = check ? children_class(t, op.rank) : -1;
        static const char *CN[] = {"leaf", "one-child", "two-children"};
        probe.canary = CANARY; probe.destroyed = 0; probe.serial = -1; probe.rank = op.rank; probe.is_value = 0;
        cur_opname = "remove";
        res = p_tree_remove(t, &probe);
        if (existed) { want[nw++] = ref->key[op.rank]; want[nw++] = ref->val[op.rank]; }
        if (check) {
            if ((res == TRUE) != existed) viol("C12", "remove-result", "remove(rank %d) returned %d, key %s", op.rank, (int)res, existed ? "existed" : "did not exist");
            expect_log(want, nw, "remove", existed && cls >= 0 ? CN[cls] : "absent");
            if (existed && cls >= 0) n_rm_class[cls]++;
        } else for (i = 0; i < dlog_n; i++) if (dlog[i]) dlog[i]->destroyed++;
        ref->key[op.rank] = NULL; ref->val[op.rank] = NULL;
        if (check) validate(t, ref, existed && cls >= 0 ? CN[cls] : "remove-absent");
    } else {
        cur_opname = "clear";
        p_tree_clear(t);
        for (i = 0; i < K; i++) if (ref->key[i]) { want[nw++] = ref->key[i]; want[nw++] = ref->val[i]; ref->key[i] = ref->val[i] = NULL; }
        if (check) {
            expect_log(want, nw, "clear", "");
            if (t->root != NULL || p_tree_get_nnodes(t) != 0) viol("C12", "clear", "tree not empty after clear (nnodes %d)", p_tree_get_nnodes(t));
            validate(t, ref, "clear");
        } else for (i = 0; i < dlog_n; i++) if (dlog[i]) dlog[i]->destroyed++;
    }
    dlog_n = 0;
}

/* ---------- state table ---------- */
typedef struct { char *canon; int parent; Op op; int depth; } State;
static State *st; static int nst, st_cap;
static int *htab; static int hcap;
static unsigned long hstr(const char *s) { unsigned long h = 1469598103934665603UL; while (*s) { h ^= (unsigned char)*s++; h *= 1099511628211UL; } return h; }
static int st_find(const char *c)
{
    unsigned long h = hstr(c) % hcap;
    while (htab[h] >= 0) { if (!strcmp(st[htab[h]].canon, c)) return htab[h]; h = (h + 1) % hcap; }
    return -1;
}
static int st_add(const char *c, int parent, Op op, int depth)
{
    unsigned long h;
    if (nst == st_cap) { fprintf(stderr, "state table full\n"); exit(2); }
    st[nst].canon = strdup(c); st[nst].parent = parent; st[nst].op = op; st[nst].depth = depth;
    h = hstr(c) % hcap; while (htab[h] >= 0) h = (h + 1) % hcap; htab[h] = nst;
    return nst++;
}
static int hist_of(int s, Op *out) { int n = st[s].depth, i = n; while (s > 0) { out[--i] = st[s].op; s = st[s].parent; } return n; }
static void hist_text(const Op *h, int n, char *buf, size_t sz)
{
    size_t o = 0; int i; buf[0] = 0;
    for (i = 0; i < n && o + 8 < sz; i++) o += snprintf(buf + o, sz - o, "%s%c%d", i ? "," : "", "ircvk"[h[i].kind], h[i].rank);
}

static PTree *rebuild(const Op *h, int n, Ref *ref)
{
    PTree *t = tree_new(); int i;
    memset(ref, 0, sizeof *ref);
    for (i = 0; i < n; i++) apply(t, ref, h[i], 0);
    return t;
}

static void free_check(PTree *t, Ref *ref)
{
    Obj *want[2 * MAXK + 2]; int nw = 0, i;
    dlog_n = 0; dlog_overflow = 0; cur_opname = "free";
    for (i = 0; i < K; i++) if (ref->key[i]) { want[nw++] = ref->key[i]; want[nw++] = ref->val[i]; }
    p_tree_free(t);
    expect_log(want, nw, "free", "");
    n_free_checks++;
    dlog_n = 0;
}

static int do_replay(const char *ops)
{
    Op h[256]; int n = 0, i; Ref ref; PTree *t; char cb[512];
    const char *p = ops;
    replay_mode = 1;
    while (*p && n < 256) {
        h[n].kind = *p == 'i' ? OP_INS : *p == 'r' ? OP_REM : *p == 'v' ? OP_INSV : *p == 'k' ? OP_INSK : OP_CLR; p++;
        h[n].rank = (unsigned char)strtol(p, (char **)&p, 10); n++;
        if (*p == ',') p++;
    }
    t = tree_new(); memset(&ref, 0, sizeof ref);
    strncpy(cur_hist, ops, sizeof cur_hist - 1);
    for (i = 0; i < n; i++) {
        apply(t, &ref, h[i], 1);
        canon(t, cb, sizeof cb);
        printf("step %d: %c%d -> %s\n", i + 1, "ircvk"[h[i].kind], h[i].rank, cb);
        readonly_ops(t, &ref);
    }
    free_check(t, &ref);
    printf("replay finished: %ld violation report(s)\n", hout_nviol);
    return hout_nviol ? 1 : 0;
}

int main(int argc, char **argv)
{
    int s, r;
    long canon_replay_checks = 0;
    if (argc < 4) { fprintf(stderr, "usage\n"); return 2; }
    T = atoi(argv[1]); K = atoi(argv[2]); MODE = atoi(argv[3]);
    if (K > MAXK || T < 0 || T > 2) return 2;
    hout_open();
    p_libsys_init();
    pool_cap = 1u << 16; pool = calloc(pool_cap, sizeof(Obj));
    if (argc >= 6 && !strcmp(argv[4], "--replay")) return do_replay(argv[5]);

    st_cap = 1 << 20; st = calloc(st_cap, sizeof *st); hcap = st_cap * 2 + 1; htab = malloc(hcap * sizeof(int));
    for (s = 0; s < hcap; s++) htab[s] = -1;
    { Op z = {0, 0}; st_add("-", -1, z, 0); }
    for (s = 0; s < nst; s++) {
        Op h[64]; int n = hist_of(s, h), nops = 4 * K + 1, o;
        Ref ref; PTree *t; char cb[512];
        /* read-only alphabet + free, once per state */
        pool_mark = pool_n;
        t = rebuild(h, n, &ref);
        hist_text(h, n, cur_hist, sizeof cur_hist);
        hout_progress("sig=%s/readonly tree_bfs %d %d %d --replay %s", TN[T], T, K, MODE, cur_hist);
        canon(t, cb, sizeof cb);
        if (strcmp(cb, st[s].canon)) {      /* never seen on a correct tree: the shape is a function of the operations applied */
            viol("C12", "state-not-determined-by-history", "the same operation sequence run a second time gave the shape %s instead of %s", cb, st[s].canon);
            return 1;
        }
        canon_replay_checks++;
        fail_flag = 0;
        readonly_ops(t, &ref);
        free_check(t, &ref);
        pool_n = pool_mark;          /* objects of a finished replay are dead: reuse pool space */
        for (o = 0; o < nops; o++) {
            Op op; char hb[1024]; int ns;
            if (o < K) { op.kind = OP_INS; op.rank = o; } else if (o < 2 * K) { op.kind = OP_REM; op.rank = o - K; } else if (o == 2 * K) { op.kind = OP_CLR; op.rank = 0; }
            else if (o <= 3 * K) { op.kind = OP_INSV; op.rank = o - 2 * K - 1; } else { op.kind = OP_INSK; op.rank = o - 3 * K - 1; }
            pool_mark = pool_n;
            t = rebuild(h, n, &ref);
            if ((op.kind == OP_INSV || op.kind == OP_INSK) && (ref.key[op.rank] == NULL || MODE == 1 || MODE == 2)) { p_tree_free(t); pool_n = pool_mark; continue; }     /* only over an existing key, only with notifiers */
            h[n] = op;
            hist_text(h, n + 1, hb, sizeof hb); strcpy(cur_hist, hb);
            hout_progress("sig=%s/%s tree_bfs %d %d %d --replay %s", TN[T], op.kind == OP_REM ? "remove" : op.kind == OP_CLR ? "clear" : "insert", T, K, MODE, cur_hist);
            fail_flag = 0;
            apply(t, &ref, op, 1);
            n_trans++; n_trans_kind[op.kind]++;
            if (!fail_flag) {
                if (canon(t, cb, sizeof cb) == 0) {
                    ns = st_find(cb);
                    if (ns < 0) {
                        if (n + 1 >= 60) { fprintf(stderr, "history too long\n"); return 2; }
                        ns = st_add(cb, s, op, n + 1);
                        if (nst % 4096 == 1 && nst < 40000) hout_sample("state %s reached by [%s]", cb, hb);
                    }
                }
                if (op.kind == OP_INSV || op.kind == OP_INSK) free_check(t, &ref);      /* these lead to no new state: what the tree does with the twice-inserted object later is checked here */
                else { dlog_n = 0; cur_opname = "free"; p_tree_free(t); }
                (void)r;
            }
            /* a tree left after a violated transition is not explored further and not freed (may be corrupt) */
            pool_n = pool_mark;
        }
    }
    {
        int maxd = 0, nontriv = 0;
        for (s = 0; s < nst; s++) { if (st[s].depth > maxd) maxd = st[s].depth; }
        for (s = 0; s < nst; s++) { int c = 0; const char *p; for (p = st[s].canon; *p; p++) c += *p == '('; if (c >= 3) nontriv++; }
        hout_stat("states", nst); hout_stat("transitions", n_trans + n_lookup + n_foreach + n_free_checks);
        hout_stat("mutating_transitions", n_trans);
        hout_stat("lookups", n_lookup); hout_stat("foreach_runs", n_foreach); hout_stat("free_checks", n_free_checks);
        hout_stat("max_depth", maxd); hout_stat("states_with_3plus_nodes", nontriv);
        hout_stat("insert_new", n_ins_new); hout_stat("insert_replace", n_ins_repl);
        hout_stat("remove_leaf", n_rm_class[0]); hout_stat("remove_one_child", n_rm_class[1]); hout_stat("remove_two_children", n_rm_class[2]);
        hout_stat("canon_on_replay_checks", canon_replay_checks);
        hout_stat("max_height", max_height);
        hout_stat("diag_stored_colouring_invalid_states", n_stored_colour_bad);
        hout_stat("diag_stored_balance_factor_wrong_states", n_stored_bf_bad);
        { char nm[64]; snprintf(nm, sizeof nm, "states_%s_K%d", TN[T], K); hout_stat(nm, nst); }
        if (nst > 3) { Op h[64]; char hb[512]; int n = hist_of(nst - 1, h); hist_text(h, n, hb, sizeof hb); hout_sample("%s mode %d K=%d last state %s reached by [%s]", TN[T], MODE, K, st[nst - 1].canon, hb); }
        for (s = 0; s < nsigs; s++) hout_note("signature %s occurred %ld time(s)", sigs[s].sig, sigs[s].n);
    }
    return hout_nviol ? 1 : 0;
}
