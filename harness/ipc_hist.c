/* C06 / C07 sequential cross-process histories and crash points.
 *
 * A driver forks two worker processes per history; handle slot i lives in worker i % 2.  Commands go over socketpairs.
 * A blocking acquire/lock is *reported* by the worker's sem_wait wrapper (it tries sem_trywait first, tells the driver
 * "blocked", then really blocks), so the driver knows without timing whether a call blocked.
 *
 * usage: ipc_hist sem <depth> | shm <depth> | semcrash | shmcrash | replay <sem|shm> <ops>
 * BFS over histories with deduplication on the canonical state of the reference model; every history is executed from
 * scratch on the real kernel objects and compared step by step with the reference.
 */
#define _GNU_SOURCE
#include <plibsys.h>
#include "hout.h"
#include <errno.h>
#include <fcntl.h>
#include <poll.h>
#include <semaphore.h>
#include <signal.h>
#include <stdint.h>
#include <sys/mman.h>
#include <sys/socket.h>
#include <sys/stat.h>
#include <sys/wait.h>
#include <unistd.h>

extern pchar *p_ipc_get_platform_key(const pchar *name, pboolean posix);
extern int ipcnames_live(char *buf, size_t sz);

/* ------------------------------------------------------------------ protocol */
enum { C_SNEW = 1, C_SACQ, C_SREL, C_SOWN, C_SFREE, C_MNEW, C_MWRITE, C_MREAD, C_MLOCK, C_MUNLOCK, C_MOWN, C_MFREE, C_MSIZE, C_MTOUCH, C_CRASHAT, C_NCALLS, C_QUIT };
typedef struct { int op, slot, name, val, mode, off; } Cmd;
typedef struct { int kind; long res, aux; } Rep;     /* kind 'B' blocked, 'D' done */

static char uname[2][1200];      /* the two user names; "<kind>@<len>" pads them to <len> characters, equal except for the last one */
static int wsock = -1;            /* worker side socket */

/* ------------------------------------------------------------------ worker-side syscall wrappers */
int __real_sem_wait(sem_t *); int __real_sem_post(sem_t *); sem_t *__real_sem_open(const char *, int, ...); int __real_sem_close(sem_t *); int __real_sem_unlink(const char *);
int __real_shm_open(const char *, int, mode_t); int __real_shm_unlink(const char *); int __real_ftruncate(int, off_t); void *__real_mmap(void *, size_t, int, int, int, off_t); int __real_munmap(void *, size_t);
extern void ipcnames_remember(const char *path);
static long ipc_calls; static long crash_at = -1; static int crash_after;
static void crash_point(int after) { if (crash_at >= 0 && ipc_calls == crash_at && after == crash_after) kill(getpid(), SIGKILL); }
#define PRE() do { crash_point(0); } while (0)
#define POST() do { crash_point(1); ipc_calls++; } while (0)

int __wrap_sem_wait(sem_t *s)
{
    int r;
    PRE();
    if (sem_trywait(s) == 0) { POST(); return 0; }
    if (errno == EAGAIN && wsock >= 0) { Rep b; b.kind = 'B'; b.res = 0; b.aux = 0; if (write(wsock, &b, sizeof b) < 0) {} }
    r = __real_sem_wait(s);
    POST();
    return r;
}
int __wrap_sem_post(sem_t *s) { int r; PRE(); r = __real_sem_post(s); POST(); return r; }
sem_t *__wrap_sem_open(const char *name, int oflag, ...)
{
    mode_t mode = 0; unsigned value = 0; sem_t *r; int e; va_list ap;
    if (oflag & O_CREAT) { char p[80]; va_start(ap, oflag); mode = va_arg(ap, mode_t); value = va_arg(ap, unsigned); va_end(ap); snprintf(p, sizeof p, "/dev/shm/sem.%s", name[0] == '/' ? name + 1 : name); ipcnames_remember(p); }
    PRE(); r = (oflag & O_CREAT) ? __real_sem_open(name, oflag, mode, value) : __real_sem_open(name, oflag); e = errno; POST(); errno = e;
    return r;
}
int __wrap_sem_close(sem_t *s) { int r; PRE(); r = __real_sem_close(s); POST(); return r; }
int __wrap_sem_unlink(const char *n) { int r, e; PRE(); r = __real_sem_unlink(n); e = errno; POST(); errno = e; return r; }
int __wrap_shm_open(const char *name, int oflag, mode_t mode)
{
    int r, e;
    if (oflag & O_CREAT) { char p[80]; snprintf(p, sizeof p, "/dev/shm/%s", name[0] == '/' ? name + 1 : name); ipcnames_remember(p); }
    PRE(); r = __real_shm_open(name, oflag, mode); e = errno; POST(); errno = e; return r;
}
int __wrap_shm_unlink(const char *n) { int r, e; PRE(); r = __real_shm_unlink(n); e = errno; POST(); errno = e; return r; }
int __wrap_ftruncate(int fd, off_t l) { int r, e; PRE(); r = __real_ftruncate(fd, l); e = errno; POST(); errno = e; return r; }
void *__wrap_mmap(void *a, size_t l, int p, int f, int fd, off_t o) { void *r; int e; if (fd < 0) return __real_mmap(a, l, p, f, fd, o); PRE(); r = __real_mmap(a, l, p, f, fd, o); e = errno; POST(); errno = e; return r; }
int __wrap_munmap(void *a, size_t l) { int r; PRE(); r = __real_munmap(a, l); POST(); return r; }

/* ------------------------------------------------------------------ worker */
static void worker_main(int sock)
{
    PSemaphore *sem[4] = {0}; PShm *shm[4] = {0}; int shm_ro[4] = {0}; Cmd c; Rep r;
    wsock = sock;
    signal(SIGBUS, SIG_DFL); signal(SIGSEGV, SIG_DFL);
    while (read(sock, &c, sizeof c) == (ssize_t)sizeof c) {
        r.kind = 'D'; r.res = 0; r.aux = 0;
        switch (c.op) {
        case C_SNEW: sem[c.slot] = p_semaphore_new(uname[c.name], c.val, c.mode ? P_SEM_ACCESS_CREATE : P_SEM_ACCESS_OPEN, NULL); r.res = sem[c.slot] != NULL; r.aux = errno; break;
        case C_SACQ: r.res = p_semaphore_acquire(sem[c.slot], NULL); break;
        case C_SREL: r.res = p_semaphore_release(sem[c.slot], NULL); break;
        case C_SOWN: p_semaphore_take_ownership(sem[c.slot]); r.res = 1; break;
        case C_SFREE: p_semaphore_free(sem[c.slot]); sem[c.slot] = NULL; r.res = 1; break;
        case C_MNEW: shm_ro[c.slot] = c.mode; shm[c.slot] = p_shm_new(uname[c.name], (psize)c.val, c.mode ? P_SHM_ACCESS_READONLY : P_SHM_ACCESS_READWRITE, NULL); r.res = shm[c.slot] != NULL; r.aux = shm[c.slot] ? (long)p_shm_get_size(shm[c.slot]) : errno; break;
        case C_MWRITE: ((volatile unsigned char *)p_shm_get_address(shm[c.slot]))[c.off] = (unsigned char)c.val; r.res = 1; break;
        case C_MREAD: r.res = ((volatile unsigned char *)p_shm_get_address(shm[c.slot]))[c.off]; break;
        case C_MTOUCH: { volatile unsigned char *p = p_shm_get_address(shm[c.slot]); psize n = p_shm_get_size(shm[c.slot]); unsigned char v; r.aux = (long)n; v = p[n - 1]; if (!shm_ro[c.slot]) p[n - 1] = v; v = p[n / 2]; if (!shm_ro[c.slot]) p[n / 2] = v; r.res = 1; break; }
        case C_MSIZE: r.res = (long)p_shm_get_size(shm[c.slot]); break;
        case C_MLOCK: r.res = p_shm_lock(shm[c.slot], NULL); break;
        case C_MUNLOCK: r.res = p_shm_unlock(shm[c.slot], NULL); break;
        case C_MOWN: p_shm_take_ownership(shm[c.slot]); r.res = 1; break;
        case C_MFREE: p_shm_free(shm[c.slot]); shm[c.slot] = NULL; r.res = 1; break;
        case C_CRASHAT: crash_at = ipc_calls + c.val; crash_after = c.mode; r.res = 1; break;
        case C_NCALLS: r.res = ipc_calls; break;
        case C_QUIT: _exit(0);
        }
        if (write(sock, &r, sizeof r) < 0) _exit(1);
    }
    _exit(0);
}

/* ------------------------------------------------------------------ driver side */
static pid_t wpid[2]; static int wfd[2]; static int wbusy[2];
static char cur_hist[512]; static const char *KIND = "sem"; static char KSUF[16]; static int DEPTH; static int replay_mode;
static int SHARD, NSHARDS = 1; static long hist_index;     /* BFS bookkeeping is identical in every shard; shard k executes the histories with index % NSHARDS == k */
static struct { char sig[128]; long n; } sigs[64]; static int nsigs;
static int fail_flag;
static long n_hist, n_steps, n_blocked_seen, n_drains;
#include <time.h>
static time_t first_viol_at;          /* once a violation is on record the exploration goes on for at most a minute: a library that makes every history
                                         run into a 5 s answer time-out would otherwise keep the search busy for hours without adding anything */
static int give_up(void) { return first_viol_at && time(NULL) - first_viol_at > 60; }

static void viol(const char *prop, const char *sig, const char *fmt, ...)
{
    char buf[1500], rp[700]; va_list ap; int i;
    va_start(ap, fmt); vsnprintf(buf, sizeof buf, fmt, ap); va_end(ap);
    fail_flag = 1;
    if (!first_viol_at) first_viol_at = time(NULL);
    if (replay_mode) printf("  !! %s: %s\n", sig, buf);
    for (i = 0; i < nsigs; i++) if (!strcmp(sigs[i].sig, sig)) { sigs[i].n++; return; }
    if (nsigs < 64) { strcpy(sigs[nsigs].sig, sig); sigs[nsigs].n = 1; nsigs++; }
    snprintf(rp, sizeof rp, "ipc_hist replay %s%s %s", KIND, KSUF, cur_hist);
    hout_viol(prop, sig, rp, "history [%s]: %s", cur_hist, buf);
}

static void start_workers(void)
{
    int i;
    for (i = 0; i < 2; i++) {
        int sv[2];
        if (socketpair(AF_UNIX, SOCK_STREAM, 0, sv) < 0) { perror("socketpair"); exit(2); }
        wpid[i] = fork();
        if (wpid[i] == 0) { close(sv[0]); if (i == 1) close(wfd[0]); worker_main(sv[1]); }
        close(sv[1]); wfd[i] = sv[0]; wbusy[i] = 0;
    }
}
static void stop_workers(void)
{
    int i, st;
    for (i = 0; i < 2; i++) { kill(wpid[i], SIGKILL); waitpid(wpid[i], &st, 0); close(wfd[i]); }
}
static void unlink_names(void)
{
    int i;
    for (i = 0; i < 2; i++) {
        char nm[1300], path[128]; pchar *k, *k2; char nm2[160];
        snprintf(nm, sizeof nm, "%s_p_sem_object", uname[i]); k = p_ipc_get_platform_key(nm, TRUE);
        snprintf(path, sizeof path, "/dev/shm/sem.%s", k + 1); unlink(path); p_free(k);
        snprintf(nm, sizeof nm, "%s_p_shm_object", uname[i]); k = p_ipc_get_platform_key(nm, TRUE);
        snprintf(path, sizeof path, "/dev/shm/%s", k + 1); unlink(path);
        snprintf(nm2, sizeof nm2, "%s_p_sem_object", k); k2 = p_ipc_get_platform_key(nm2, TRUE);
        snprintf(path, sizeof path, "/dev/shm/sem.%s", k2 + 1); unlink(path); p_free(k2); p_free(k);
    }
}
static long last_stat_size;
static int name_linked(int n, int shm)       /* shm: 0 semaphore of that user name, 1 segment, 2 the segment's lock semaphore */
{
    char nm[1300], path[128]; pchar *k; struct stat st; int r;
    snprintf(nm, sizeof nm, "%s%s", uname[n], shm ? "_p_shm_object" : "_p_sem_object"); k = p_ipc_get_platform_key(nm, TRUE);
    if (shm == 2) { pchar *k2; snprintf(nm, sizeof nm, "%s_p_sem_object", k); k2 = p_ipc_get_platform_key(nm, TRUE); p_free(k); k = k2; }
    snprintf(path, sizeof path, shm == 1 ? "/dev/shm/%s" : "/dev/shm/sem.%s", k + 1); p_free(k);
    r = stat(path, &st) == 0;
    last_stat_size = r ? (long)st.st_size : -1;
    return r;
}

/* send a command to the worker owning the slot; returns 'D' (rep filled), 'B' (blocked) or 'X' (worker died / timeout) */
static int xsend(int w, const Cmd *c, Rep *rep, int timeout_ms)
{
    struct pollfd pf; int n;
    if (write(wfd[w], c, sizeof *c) != (ssize_t)sizeof *c) return 'X';
    pf.fd = wfd[w]; pf.events = POLLIN;
    n = poll(&pf, 1, timeout_ms);
    if (n <= 0) return 'X';
    if (read(wfd[w], rep, sizeof *rep) != (ssize_t)sizeof *rep) return 'X';
    return rep->kind;
}
static int xwait(int w, Rep *rep, int timeout_ms)
{
    struct pollfd pf; int n; pf.fd = wfd[w]; pf.events = POLLIN;
    n = poll(&pf, 1, timeout_ms);
    if (n <= 0) return 'T';
    if (read(wfd[w], rep, sizeof *rep) != (ssize_t)sizeof *rep) return 'X';
    return rep->kind;
}
static const char *died(int w) { static char b[64]; int st; if (waitpid(wpid[w], &st, WNOHANG) == wpid[w] && WIFSIGNALED(st)) { snprintf(b, sizeof b, "worker killed by signal %d", WTERMSIG(st)); return b; } return "worker did not answer"; }

/* ================================================================== semaphore histories */
#define NSLOT 3
#define MAXGEN 16
typedef struct { int linked[2]; int ctr[MAXGEN]; int ngen; int open[NSLOT], name[NSLOT], gen[NSLOT], owner[NSLOT]; int pending; } SRef;
typedef struct { unsigned char op, slot, name, val, mode; } SOp;      /* op: 0 new 1 acq 2 rel 3 own 4 free */
static const char SOPC[] = "nargf";

static void sref_init(SRef *r) { memset(r, 0, sizeof *r); r->linked[0] = r->linked[1] = -1; r->pending = -1; }
static void scanon(const SRef *r, char *buf, size_t sz)
{
    int map[MAXGEN], nm = 0, i; size_t o = 0;
    for (i = 0; i < MAXGEN; i++) map[i] = -1;
#define GID(g) ((g) < 0 ? -1 : (map[g] >= 0 ? map[g] : (map[g] = nm++)))
    for (i = 0; i < 2; i++) o += snprintf(buf + o, sz - o, "L%d,", GID(r->linked[i]));
    for (i = 0; i < NSLOT; i++) { if (r->open[i]) o += snprintf(buf + o, sz - o, "S%d.%d.%d,", r->name[i], GID(r->gen[i]), r->owner[i]); else o += snprintf(buf + o, sz - o, "S-,"); }
    { int inv[MAXGEN]; for (i = 0; i < MAXGEN; i++) inv[i] = -1; for (i = 0; i < r->ngen; i++) if (map[i] >= 0) inv[map[i]] = i; for (i = 0; i < nm; i++) o += snprintf(buf + o, sz - o, "c%d,", r->ctr[inv[i]]); }
    snprintf(buf + o, sz - o, "P%d", r->pending);
}
static int sop_valid(const SRef *r, SOp op)
{
    int w = op.slot % 2, busy = r->pending >= 0 && r->pending % 2 == w;
    if (busy) return 0;
    switch (op.op) {
    case 0: return !r->open[op.slot] && r->ngen < MAXGEN - 1;
    case 1: return r->open[op.slot] && (r->ctr[r->gen[op.slot]] > 0 || r->pending < 0);
    case 2: return r->open[op.slot] && (r->ctr[r->gen[op.slot]] < 3 || (r->pending >= 0 && r->gen[r->pending] == r->gen[op.slot]));
    case 3: return r->open[op.slot] && !r->owner[op.slot];
    case 4: return r->open[op.slot];
    }
    return 0;
}
/* applies op to the reference; returns expectation flags */
static void sref_apply(SRef *r, SOp op, int *expect_block, int *wakes_pending)
{
    *expect_block = 0; *wakes_pending = 0;
    switch (op.op) {
    case 0:
        if (op.mode == 0 && r->linked[op.name] >= 0) { r->open[op.slot] = 1; r->name[op.slot] = op.name; r->gen[op.slot] = r->linked[op.name]; r->owner[op.slot] = 0; }
        else { int g = r->ngen++; r->ctr[g] = op.val; r->linked[op.name] = g; r->open[op.slot] = 1; r->name[op.slot] = op.name; r->gen[op.slot] = g; r->owner[op.slot] = 1; }
        break;
    case 1: if (r->ctr[r->gen[op.slot]] > 0) r->ctr[r->gen[op.slot]]--; else { r->pending = op.slot; *expect_block = 1; } break;
    case 2: if (r->pending >= 0 && r->gen[r->pending] == r->gen[op.slot]) { *wakes_pending = 1; } else r->ctr[r->gen[op.slot]]++; break;
    case 3: r->owner[op.slot] = 1; break;
    case 4: if (r->owner[op.slot]) r->linked[r->name[op.slot]] = -1; r->open[op.slot] = 0; break;
    }
}
static void shist_text(const SOp *h, int n, char *buf, size_t sz)
{
    size_t o = 0; int i; buf[0] = 0;
    for (i = 0; i < n; i++) { o += snprintf(buf + o, sz - o, "%s%c%d", i ? "," : "", SOPC[h[i].op], h[i].slot); if (h[i].op == 0) o += snprintf(buf + o, sz - o, ".%d.%d.%d", h[i].name, h[i].val, h[i].mode); }
}

/* executes one history on the real objects, comparing with the reference after every step; final checks at the end */
static void srun(const SOp *h, int n, int final_checks)
{
    SRef r; int i, eb, wp; Rep rep; Cmd c; char sg[96];
    if (!replay_mode && give_up()) { fail_flag = 1; return; }
    sref_init(&r);
    unlink_names();
    start_workers();
    n_hist++;
    for (i = 0; i < n && !fail_flag; i++) {
        SOp op = h[i]; int w = op.slot % 2, k; int pend_before = r.pending;
        static const int CM[] = {C_SNEW, C_SACQ, C_SREL, C_SOWN, C_SFREE};
        static const char *ON[] = {"new", "acquire", "release", "take_ownership", "free"};
        sref_apply(&r, op, &eb, &wp);
        memset(&c, 0, sizeof c); c.op = CM[op.op]; c.slot = op.slot; c.name = op.name; c.val = op.val; c.mode = op.mode;
        k = xsend(w, &c, &rep, 5000);
        n_steps++;
        if (k == 'X') { snprintf(sg, sizeof sg, "sem/%s/no-answer", ON[op.op]); viol("C06", sg, "step %d %s: %s", i + 1, ON[op.op], died(w)); break; }
        if (op.op == 0) {
            if (!rep.res) { snprintf(sg, sizeof sg, "sem/new-failed/%s", op.mode ? "CREATE" : "OPEN"); viol("C06", sg, "step %d: p_semaphore_new(name %d, value %d, %s) returned NULL (errno %ld)", i + 1, op.name, op.val, op.mode ? "CREATE" : "OPEN", rep.aux); break; }
        } else if (op.op == 1) {
            if (eb) { n_blocked_seen++; if (k != 'B') { viol("C06", "sem/acquire-did-not-block", "step %d: acquire returned although the reference counter is 0 (a unit was created out of nothing, or the handle looks at another counter)", i + 1); break; } wbusy[w] = 1; }
            else if (k == 'B') { viol("C06", "sem/acquire-blocked-with-units", "step %d: acquire blocked although the reference counter holds units", i + 1); break; }
            else if (!rep.res) { viol("C06", "sem/acquire-false", "step %d: acquire returned FALSE", i + 1); break; }
        } else if (op.op == 2) {
            if (!rep.res) { viol("C06", "sem/release-false", "step %d: release returned FALSE", i + 1); break; }
            if (wp) { int pw = pend_before % 2; Rep r2; int k2 = xwait(pw, &r2, 5000); if (k2 != 'D' || !r2.res) { viol("C06", "sem/release-did-not-wake", "step %d: a release on the counter a blocked acquire waits for did not let it return", i + 1); break; } wbusy[pw] = 0; r.pending = -1; }
        }
    }
    if (!fail_flag && final_checks) {
        /* a still pending acquire must still be blocked */
        if (r.pending >= 0) { Rep r2; if (xwait(r.pending % 2, &r2, 30) != 'T') viol("C06", "sem/pending-acquire-returned", "a blocked acquire returned although no unit was released to its counter"); }
        /* name space: linked exactly when the reference says so */
        for (i = 0; i < 2 && !fail_flag; i++) if (name_linked(i, 0) != (r.linked[i] >= 0)) { snprintf(sg, sizeof sg, "sem/name-%s", r.linked[i] >= 0 ? "missing" : "left-behind"); viol("C06", sg, "name %d %s in the system, the reference says it %s", i, name_linked(i, 0) ? "exists" : "does not exist", r.linked[i] >= 0 ? "exists" : "was removed by an owner free"); }
        /* drain: per free worker one counter, through its first open slot: exactly ctr acquires succeed, the next blocks */
        for (i = 0; i < NSLOT && !fail_flag; i++) {
            int w = i % 2, k, j;
            if (!r.open[i] || wbusy[w]) continue;
            n_drains++;
            memset(&c, 0, sizeof c); c.op = C_SACQ; c.slot = i;
            for (j = 0; j <= r.ctr[r.gen[i]]; j++) {
                k = xsend(w, &c, &rep, 5000);
                if (j < r.ctr[r.gen[i]] && k != 'D') { viol("C06", "sem/counter-too-low", "final drain through slot %d: unit %d of %d is missing (the handle does not see the value the reference holds)", i, j + 1, r.ctr[r.gen[i]]); break; }
                if (j == r.ctr[r.gen[i]] && k != 'B') { viol("C06", "sem/counter-too-high", "final drain through slot %d: more than the %d unit(s) of the reference could be acquired", i, r.ctr[r.gen[i]]); break; }
            }
            wbusy[w] = 1;
            r.ctr[r.gen[i]] = 0;
        }
    }
    stop_workers();
    unlink_names();
}

/* ================================================================== shared memory histories */
static const int SIZES[] = {64, 4096, 8192};
static const int OFFS[] = {0, 31, 63};
typedef struct { int linked[2]; int size[MAXGEN]; unsigned char cell[MAXGEN][3]; int holder[MAXGEN]; int ngen; int open[NSLOT], name[NSLOT], gen[NSLOT], owner[NSLOT], req[NSLOT], ro[NSLOT]; int pending; unsigned char nextpat; } MRef;   /* ro: slot 2 opens an existing segment read-only */
typedef struct { unsigned char op, slot, name, val; } MOp;   /* op: 0 new(size idx) 1 write(off idx) 2 read(off idx) 3 lock 4 unlock 5 own 6 free */
static const char MOPC[] = "nwrlugf";
static void mref_init(MRef *r) { int i; memset(r, 0, sizeof *r); r->linked[0] = r->linked[1] = -1; r->pending = -1; r->nextpat = 1; for (i = 0; i < MAXGEN; i++) r->holder[i] = -1; }
static void mcanon(const MRef *r, char *buf, size_t sz)
{
    int map[MAXGEN], nm = 0, i, inv[MAXGEN]; size_t o = 0;
    for (i = 0; i < MAXGEN; i++) { map[i] = -1; inv[i] = -1; }
    for (i = 0; i < 2; i++) o += snprintf(buf + o, sz - o, "L%d,", GID(r->linked[i]));
    for (i = 0; i < NSLOT; i++) { if (r->open[i]) o += snprintf(buf + o, sz - o, "S%d.%d.%d.%d.%d,", r->name[i], GID(r->gen[i]), r->owner[i], r->req[i], r->ro[i]); else o += snprintf(buf + o, sz - o, "S-,"); }
    for (i = 0; i < r->ngen; i++) if (map[i] >= 0) inv[map[i]] = i;
    for (i = 0; i < nm; i++) { int g = inv[i]; o += snprintf(buf + o, sz - o, "g%d.%d%d%d.%d,", r->size[g], r->cell[g][0] != 0, r->cell[g][1] != 0, r->cell[g][2] != 0, r->holder[g]); }
    snprintf(buf + o, sz - o, "P%d", r->pending);
}
static int mop_valid(const MRef *r, MOp op)
{
    int w = op.slot % 2, busy = r->pending >= 0 && r->pending % 2 == w, g;
    if (busy) return 0;
    if (op.op == 0) return !r->open[op.slot] && r->ngen < MAXGEN - 1;
    if (!r->open[op.slot]) return 0;
    g = r->gen[op.slot];
    switch (op.op) {
    case 1: return !r->ro[op.slot];
    case 2: return 1;
    case 3: return r->holder[g] != op.slot && (r->holder[g] < 0 || r->pending < 0);
    case 4: return r->holder[g] == op.slot;
    case 5: return !r->owner[op.slot];
    case 6: return r->holder[g] != op.slot && !(r->pending >= 0);      /* do not free while holding / while someone is parked (keeps the alphabet inside what the property defines) */
    }
    return 0;
}
static void mhist_text(const MOp *h, int n, char *buf, size_t sz)
{
    size_t o = 0; int i; buf[0] = 0;
    for (i = 0; i < n; i++) { o += snprintf(buf + o, sz - o, "%s%c%d", i ? "," : "", MOPC[h[i].op], h[i].slot); if (h[i].op <= 2) o += snprintf(buf + o, sz - o, ".%d.%d", h[i].name, h[i].val); }
}
static void mrun(const MOp *h, int n, int final_checks)
{
    MRef r; int i; Rep rep; Cmd c; char sg[96];
    if (!replay_mode && give_up()) { fail_flag = 1; return; }
    mref_init(&r);
    unlink_names(); start_workers(); n_hist++;
    for (i = 0; i < n && !fail_flag; i++) {
        MOp op = h[i]; int w = op.slot % 2, k, g = r.open[op.slot] ? r.gen[op.slot] : -1;
        static const int CM[] = {C_MNEW, C_MWRITE, C_MREAD, C_MLOCK, C_MUNLOCK, C_MOWN, C_MFREE};
        static const char *ON[] = {"new", "write", "read", "lock", "unlock", "take_ownership", "free"};
        memset(&c, 0, sizeof c); c.op = CM[op.op]; c.slot = op.slot; c.name = op.name;
        n_steps++;
        if (op.op == 0) {
            int fresh = r.linked[op.name] < 0, sz = SIZES[op.val];
            long obj_before = name_linked(op.name, 1) ? last_stat_size : -1;
            c.val = sz; c.mode = (!fresh && op.slot == 2);
            k = xsend(w, &c, &rep, 5000);
            if (k != 'D') { viol("C07", "shm/new/no-answer", "step %d new: %s", i + 1, died(w)); break; }
            if (!rep.res) { snprintf(sg, sizeof sg, "shm/new-failed/%s", fresh ? "fresh-name" : "existing-name"); viol("C07", sg, "step %d: p_shm_new(name %d, size %d) returned NULL (errno %ld) on %s", i + 1, op.name, sz, rep.aux, fresh ? "a name that does not exist" : "an existing segment"); break; }
            if (fresh) { g = r.ngen++; r.size[g] = sz; memset(r.cell[g], 0, 3); r.holder[g] = -1; r.linked[op.name] = g; r.owner[op.slot] = 1; if (rep.aux != sz) { viol("C07", "shm/creator-size", "step %d: creator asked for %d bytes, p_shm_get_size reports %ld", i + 1, sz, rep.aux); break; } }
            else { g = r.linked[op.name]; r.owner[op.slot] = 0; if (sz == r.size[g] && rep.aux != sz) { viol("C07", "shm/same-size-argument-different-size", "step %d: opened an existing segment with the same size argument %d but p_shm_get_size reports %ld", i + 1, sz, rep.aux); break; } }
            /* opening an existing segment leaves the object itself alone: the other handles of the name keep every byte below their size */
            if (!fresh && obj_before >= 0 && name_linked(op.name, 1) && last_stat_size != obj_before) { viol("C07", "shm/open-resized-segment", "step %d: p_shm_new(name %d, size %d) on an existing segment changed the size of the object from %ld to %ld bytes under the handles that are already open", i + 1, op.name, sz, obj_before, last_stat_size); break; }
            if (!fresh) { int s2; for (s2 = 0; s2 < NSLOT && !fail_flag; s2++) if (s2 != op.slot && r.open[s2] && r.gen[s2] == g && !wbusy[s2 % 2]) { Rep r3; memset(&c, 0, sizeof c); c.op = C_MTOUCH; c.slot = s2;
                if (xsend(s2 % 2, &c, &r3, 5000) != 'D') viol("C07", "shm/byte-below-size-not-accessible/other-handle", "step %d: after slot %d opened the segment with size %d, touching the last byte below p_shm_get_size of slot %d killed the process (%s)", i + 1, op.slot, sz, s2, died(s2 % 2)); }
                if (fail_flag) break; memset(&c, 0, sizeof c); c.op = CM[op.op]; c.slot = op.slot; c.name = op.name; }
            r.open[op.slot] = 1; r.name[op.slot] = op.name; r.gen[op.slot] = g; r.req[op.slot] = op.val; r.ro[op.slot] = (!fresh && op.slot == 2);
            if (name_linked(op.name, 1) && rep.aux > last_stat_size) { viol("C07", "shm/size-exceeds-segment", "step %d: p_shm_get_size reports %ld bytes but the segment object holds %ld: bytes below the reported size are not backed by the segment", i + 1, rep.aux, last_stat_size); break; }
            /* every byte below p_shm_get_size is accessible: touch the last and the middle byte under the real MMU */
            memset(&c, 0, sizeof c); c.op = C_MTOUCH; c.slot = op.slot;
            k = xsend(w, &c, &rep, 5000);
            if (k != 'D') { viol("C07", "shm/byte-below-size-not-accessible", "step %d: touching the last byte below p_shm_get_size killed the process (%s)", i + 1, died(w)); break; }
            if (fresh) { int q; for (q = 0; q < 3 && !fail_flag; q++) { memset(&c, 0, sizeof c); c.op = C_MREAD; c.slot = op.slot; c.off = OFFS[q]; if (xsend(w, &c, &rep, 5000) != 'D' || rep.res != 0) viol("C07", "shm/fresh-segment-not-zero", "step %d: fresh segment is not zero-filled at offset %d (old data survived an owner free)", i + 1, OFFS[q]); } }
        } else if (op.op == 1) {
            c.off = OFFS[op.val]; c.val = r.nextpat; r.cell[g][op.val] = r.nextpat; r.nextpat = r.nextpat == 250 ? 1 : r.nextpat + 1;
            if (xsend(w, &c, &rep, 5000) != 'D') { viol("C07", "shm/write/no-answer", "step %d write: %s", i + 1, died(w)); break; }
        } else if (op.op == 2) {
            c.off = OFFS[op.val];
            if (xsend(w, &c, &rep, 5000) != 'D') { viol("C07", "shm/read/no-answer", "step %d read: %s", i + 1, died(w)); break; }
            if (rep.res != r.cell[g][op.val]) { viol("C07", "shm/same-bytes", "step %d: read %ld at offset %d through slot %d, the last byte stored there through a handle of this segment is %d", i + 1, rep.res, OFFS[op.val], op.slot, r.cell[g][op.val]); break; }
        } else if (op.op == 3) {
            k = xsend(w, &c, &rep, 5000);
            if (r.holder[g] >= 0) { n_blocked_seen++; if (k != 'B') { viol("C07", "shm/lock-did-not-block", "step %d: p_shm_lock returned while slot %d holds the lock of the same name", i + 1, r.holder[g]); break; } r.pending = op.slot; wbusy[w] = 1; }
            else { if (k == 'B') { viol("C07", "shm/lock-blocked-while-free", "step %d: p_shm_lock blocked although nobody holds the lock", i + 1); break; } if (k != 'D' || !rep.res) { viol("C07", "shm/lock-false", "step %d: p_shm_lock failed", i + 1); break; } r.holder[g] = op.slot; }
        } else if (op.op == 4) {
            if (xsend(w, &c, &rep, 5000) != 'D' || !rep.res) { viol("C07", "shm/unlock-false", "step %d: p_shm_unlock failed", i + 1); break; }
            r.holder[g] = -1;
            if (r.pending >= 0 && r.gen[r.pending] == g) { int pw = r.pending % 2; Rep r2; if (xwait(pw, &r2, 5000) != 'D' || !r2.res) { viol("C07", "shm/unlock-did-not-wake", "step %d: unlock did not let the blocked p_shm_lock return", i + 1); break; } r.holder[g] = r.pending; r.pending = -1; wbusy[pw] = 0; }
        } else if (op.op == 5) { if (xsend(w, &c, &rep, 5000) != 'D') { viol("C07", "shm/own/no-answer", "%s", died(w)); break; } r.owner[op.slot] = 1; }
        else { if (xsend(w, &c, &rep, 5000) != 'D') { viol("C07", "shm/free/no-answer", "step %d free: %s", i + 1, died(w)); break; } if (r.owner[op.slot]) r.linked[r.name[op.slot]] = -1; r.open[op.slot] = 0; }
        (void)ON;
    }
    if (!fail_flag && final_checks) {
        if (r.pending >= 0) { Rep r2; if (xwait(r.pending % 2, &r2, 30) != 'T') viol("C07", "shm/pending-lock-returned", "a blocked p_shm_lock returned although the holder did not unlock"); }
        for (i = 0; i < 2 && !fail_flag; i++) if (name_linked(i, 1) != (r.linked[i] >= 0)) { snprintf(sg, sizeof sg, "shm/name-%s", r.linked[i] >= 0 ? "missing" : "left-behind"); viol("C07", sg, "segment name %d %s in the system, the reference says it %s", i, name_linked(i, 1) ? "exists" : "does not exist", r.linked[i] >= 0 ? "exists" : "was removed by an owner free"); }
        for (i = 0; i < 2 && !fail_flag; i++) if (name_linked(i, 2) != (r.linked[i] >= 0)) { snprintf(sg, sizeof sg, "shm/lock-name-%s", r.linked[i] >= 0 ? "missing" : "left-behind"); viol("C07", sg, "the lock semaphore of segment name %d %s in the system, the reference says the segment %s", i, name_linked(i, 2) ? "exists" : "does not exist", r.linked[i] >= 0 ? "exists" : "was removed by an owner free"); }
    }
    stop_workers(); unlink_names();
}

/* ================================================================== BFS driver (generic over the two kinds) */
typedef struct { char *canon; int parent; int depth; unsigned char op[5]; } HState;
static HState *hs; static int nhs, hs_cap; static int *htab; static int hcap;
static unsigned long hstr(const char *s) { unsigned long h = 1469598103934665603UL; while (*s) { h ^= (unsigned char)*s++; h *= 1099511628211UL; } return h; }
static int st_find(const char *c) { unsigned long h = hstr(c) % hcap; while (htab[h] >= 0) { if (!strcmp(hs[htab[h]].canon, c)) return htab[h]; h = (h + 1) % hcap; } return -1; }
static int st_add(const char *c, int parent, int depth, const void *op, size_t opsz)
{
    unsigned long h;
    if (nhs == hs_cap) { fprintf(stderr, "state table full\n"); exit(2); }
    hs[nhs].canon = strdup(c); hs[nhs].parent = parent; hs[nhs].depth = depth; memcpy(hs[nhs].op, op, opsz);
    h = hstr(c) % hcap; while (htab[h] >= 0) h = (h + 1) % hcap; htab[h] = nhs;
    return nhs++;
}

static int sem_bfs(void)
{
    int s; SOp z; memset(&z, 0, sizeof z);
    { SRef r; char cb[256]; sref_init(&r); scanon(&r, cb, sizeof cb); st_add(cb, -1, 0, &z, sizeof z); }
    for (s = 0; s < nhs && !give_up(); s++) {
        SOp h[32]; int n = hs[s].depth, i, x = s; SRef r; int eb, wp;
        for (i = n; i > 0; i--) { memcpy(&h[i - 1], hs[x].op, sizeof(SOp)); x = hs[x].parent; }
        {   /* enumerate ops */
            int op, slot, name, val, mode;
            for (op = 0; op < 5; op++) for (slot = 0; slot < NSLOT; slot++) for (name = 0; name < (op == 0 ? 2 : 1); name++) for (val = 0; val < (op == 0 ? 3 : 1); val++) for (mode = 0; mode < (op == 0 ? 2 : 1); mode++) {
                SOp o; char cb[256]; int k;
                o.op = op; o.slot = slot; o.name = name; o.val = val; o.mode = mode;
                sref_init(&r); for (k = 0; k < n; k++) { sref_apply(&r, h[k], &eb, &wp); if (wp) r.pending = -1; }
                if (!sop_valid(&r, o)) continue;
                h[n] = o; shist_text(h, n + 1, cur_hist, sizeof cur_hist);
                hout_progress("sig=sem/crash ipc_hist replay sem%s %s", KSUF, cur_hist);
                fail_flag = 0;
                if (hist_index++ % NSHARDS == SHARD) srun(h, n + 1, 1);
                sref_apply(&r, o, &eb, &wp); if (wp) r.pending = -1;
                scanon(&r, cb, sizeof cb);
                if (!fail_flag && n + 1 < DEPTH && st_find(cb) < 0) st_add(cb, s, n + 1, &o, sizeof o);
            }
        }
    }
    return 0;
}
static void mref_replay(MRef *r, const MOp *h, int n)
{
    int i;
    mref_init(r);
    for (i = 0; i < n; i++) {
        MOp op = h[i]; int g = r->open[op.slot] ? r->gen[op.slot] : -1;
        switch (op.op) {
        case 0: if (r->linked[op.name] < 0) { g = r->ngen++; r->size[g] = SIZES[op.val]; memset(r->cell[g], 0, 3); r->holder[g] = -1; r->linked[op.name] = g; r->owner[op.slot] = 1; r->ro[op.slot] = 0; } else { g = r->linked[op.name]; r->owner[op.slot] = 0; r->ro[op.slot] = op.slot == 2; }
                r->open[op.slot] = 1; r->name[op.slot] = op.name; r->gen[op.slot] = g; r->req[op.slot] = op.val; break;
        case 1: r->cell[g][op.val] = r->nextpat; r->nextpat = r->nextpat == 250 ? 1 : r->nextpat + 1; break;
        case 3: if (r->holder[g] >= 0) r->pending = op.slot; else r->holder[g] = op.slot; break;
        case 4: r->holder[g] = -1; if (r->pending >= 0 && r->gen[r->pending] == g) { r->holder[g] = r->pending; r->pending = -1; } break;
        case 5: r->owner[op.slot] = 1; break;
        case 6: if (r->owner[op.slot]) r->linked[r->name[op.slot]] = -1; r->open[op.slot] = 0; break;
        }
    }
}
static int shm_bfs(void)
{
    int s; MOp z; memset(&z, 0, sizeof z);
    { MRef r; char cb[400]; mref_init(&r); mcanon(&r, cb, sizeof cb); st_add(cb, -1, 0, &z, sizeof z); }
    for (s = 0; s < nhs && !give_up(); s++) {
        MOp h[32]; int n = hs[s].depth, i, x = s; MRef r; int op, slot, name, val;
        for (i = n; i > 0; i--) { memcpy(&h[i - 1], hs[x].op, sizeof(MOp)); x = hs[x].parent; }
        for (op = 0; op < 7; op++) for (slot = 0; slot < NSLOT; slot++) for (name = 0; name < (op == 0 ? 2 : 1); name++) for (val = 0; val < (op <= 2 ? 3 : 1); val++) {
            MOp o; char cb[400];
            o.op = op; o.slot = slot; o.name = name; o.val = val;
            mref_replay(&r, h, n);
            if (!mop_valid(&r, o)) continue;
            h[n] = o; mhist_text(h, n + 1, cur_hist, sizeof cur_hist);
            hout_progress("sig=shm/crash ipc_hist replay shm%s %s", KSUF, cur_hist);
            fail_flag = 0;
            if (hist_index++ % NSHARDS == SHARD) mrun(h, n + 1, 1);
            mref_replay(&r, h, n + 1);
            mcanon(&r, cb, sizeof cb);
            if (!fail_flag && n + 1 < DEPTH && st_find(cb) < 0) st_add(cb, s, n + 1, &o, sizeof o);
        }
    }
    return 0;
}

/* ================================================================== crash points */
/* victim = worker 0 runs a script; for every IPC system call index k of the script, before and after: SIGKILL there.
 * Then worker 1 (fresh process) performs the documented recovery and must end with a working fresh object. */
static long n_crash_points;
static int count_calls(int w) { Cmd c; Rep rep; memset(&c, 0, sizeof c); c.op = C_NCALLS; if (xsend(w, &c, &rep, 5000) != 'D') return -1; return (int)rep.res; }

static void sem_recover(const char *what, int k, int after)
{
    Cmd c; Rep rep; int kk, j; char sg[128];
    /* documented clean-up: open, take ownership, free; then create again with a new value */
    memset(&c, 0, sizeof c); c.op = C_SNEW; c.slot = 1; c.name = 0; c.val = 1; c.mode = 0;
    if (xsend(1, &c, &rep, 5000) != 'D' || !rep.res) { snprintf(sg, sizeof sg, "semcrash/%s/recovery-open-failed", what); viol("C06", sg, "victim killed %s IPC call %d of '%s': the recovering process cannot open the name (errno %ld)", after ? "after" : "before", k, what, rep.aux); return; }
    c.op = C_SOWN; xsend(1, &c, &rep, 5000); c.op = C_SFREE; xsend(1, &c, &rep, 5000);
    if (name_linked(0, 0)) { snprintf(sg, sizeof sg, "semcrash/%s/name-left-after-cleanup", what); viol("C06", sg, "victim killed %s IPC call %d of '%s': the name still exists after open / take_ownership / free", after ? "after" : "before", k, what); return; }
    memset(&c, 0, sizeof c); c.op = C_SNEW; c.slot = 1; c.name = 0; c.val = 2; c.mode = 0;
    if (xsend(1, &c, &rep, 5000) != 'D' || !rep.res) { snprintf(sg, sizeof sg, "semcrash/%s/recreate-failed", what); viol("C06", sg, "victim killed %s IPC call %d of '%s': re-creating the semaphore after the clean-up failed", after ? "after" : "before", k, what); return; }
    memset(&c, 0, sizeof c); c.op = C_SACQ; c.slot = 1;
    for (j = 0; j < 3; j++) { kk = xsend(1, &c, &rep, 5000); if ((j < 2) != (kk == 'D')) { snprintf(sg, sizeof sg, "semcrash/%s/recreated-value", what); viol("C06", sg, "victim killed %s IPC call %d of '%s': the re-created semaphore does not hold exactly the 2 requested units", after ? "after" : "before", k, what); return; } }
}
static int sem_crash(void)
{
    static const char *SCRIPTS[] = {"n0.0.1.0,a0,r0,f0", "n0.0.1.1,a0,g0,f0", "n0.0.2.0,a0,a0,r0", "n0.0.0.0,r0,a0,f0"};
    int si;
    KIND = "semcrash";
    for (si = 0; si < 4; si++) {
        SOp h[16]; int n = 0, total, k, after, i; const char *p = SCRIPTS[si]; Cmd c; Rep rep;
        while (*p) { h[n].op = (unsigned char)(strchr(SOPC, *p) - SOPC); p++; h[n].slot = (unsigned char)strtol(p, (char **)&p, 10); h[n].name = h[n].val = h[n].mode = 0; if (*p == '.') { p++; h[n].name = (unsigned char)strtol(p, (char **)&p, 10); p++; h[n].val = (unsigned char)strtol(p, (char **)&p, 10); p++; h[n].mode = (unsigned char)strtol(p, (char **)&p, 10); } n++; if (*p == ',') p++; }
        /* count the IPC calls of the script */
        unlink_names(); start_workers();
        for (i = 0; i < n; i++) { static const int CM[] = {C_SNEW, C_SACQ, C_SREL, C_SOWN, C_SFREE}; memset(&c, 0, sizeof c); c.op = CM[h[i].op]; c.slot = 0; c.name = 0; c.val = h[i].val; c.mode = h[i].mode; xsend(0, &c, &rep, 5000); }
        total = count_calls(0); stop_workers(); unlink_names();
        for (k = 0; k < total; k++) for (after = 0; after < 2; after++) {
            snprintf(cur_hist, sizeof cur_hist, "%s@%d%c", SCRIPTS[si], k, after ? 'a' : 'b');
            hout_progress("sig=semcrash/crash ipc_hist semcrash %s", cur_hist);
            if (hist_index++ % NSHARDS != SHARD) continue;
            fail_flag = 0; n_crash_points++; n_hist++;
            start_workers();
            memset(&c, 0, sizeof c); c.op = C_CRASHAT; c.val = k; c.mode = after; xsend(0, &c, &rep, 5000);
            for (i = 0; i < n; i++) { static const int CM[] = {C_SNEW, C_SACQ, C_SREL, C_SOWN, C_SFREE}; int kk; memset(&c, 0, sizeof c); c.op = CM[h[i].op]; c.slot = 0; c.name = 0; c.val = h[i].val; c.mode = h[i].mode; kk = xsend(0, &c, &rep, 2000); if (kk == 'X') break; }
            sem_recover(SCRIPTS[si], k, after);
            stop_workers(); unlink_names();
        }
    }
    return 0;
}
static void shm_recover(const char *what, int k, int after)
{
    Cmd c; Rep rep; char sg[128]; int q;
    memset(&c, 0, sizeof c); c.op = C_MNEW; c.slot = 1; c.name = 0; c.val = 64;
    if (xsend(1, &c, &rep, 5000) == 'D' && rep.res) { c.op = C_MOWN; xsend(1, &c, &rep, 5000); c.op = C_MFREE; xsend(1, &c, &rep, 5000); }
    else if (name_linked(0, 1)) { snprintf(sg, sizeof sg, "shmcrash/%s/recovery-open-failed", what); viol("C07", sg, "victim killed %s IPC call %d of '%s': the left-over segment cannot be opened (errno %ld), so the documented clean-up (new / take_ownership / free) cannot run", after ? "after" : "before", k, what, rep.aux); return; }
    if (name_linked(0, 1) || name_linked(0, 2)) { snprintf(sg, sizeof sg, "shmcrash/%s/name-left-after-cleanup", what); viol("C07", sg, "victim killed %s IPC call %d of '%s': the segment name still exists after the documented clean-up", after ? "after" : "before", k, what); return; }
    memset(&c, 0, sizeof c); c.op = C_MNEW; c.slot = 1; c.name = 0; c.val = 4096;
    if (xsend(1, &c, &rep, 5000) != 'D' || !rep.res) { snprintf(sg, sizeof sg, "shmcrash/%s/recreate-failed", what); viol("C07", sg, "victim killed %s IPC call %d of '%s': p_shm_new after the clean-up failed (errno %ld)", after ? "after" : "before", k, what, rep.aux); return; }
    if (rep.aux != 4096) { snprintf(sg, sizeof sg, "shmcrash/%s/recreated-size", what); viol("C07", sg, "victim killed %s IPC call %d of '%s': fresh segment reports %ld bytes, 4096 were requested", after ? "after" : "before", k, what, rep.aux); return; }
    for (q = 0; q < 3; q++) { memset(&c, 0, sizeof c); c.op = C_MREAD; c.slot = 1; c.off = OFFS[q]; if (xsend(1, &c, &rep, 5000) != 'D' || rep.res != 0) { snprintf(sg, sizeof sg, "shmcrash/%s/recreated-not-zero", what); viol("C07", sg, "fresh segment after the clean-up is not zero-filled"); return; } }
    memset(&c, 0, sizeof c); c.op = C_MLOCK; c.slot = 1;
    if (xsend(1, &c, &rep, 5000) != 'D') { snprintf(sg, sizeof sg, "shmcrash/%s/recreated-lock-not-free", what); viol("C07", sg, "victim killed %s IPC call %d of '%s': the lock of the fresh segment is not free", after ? "after" : "before", k, what); return; }
}
static int shm_crash(void)
{
    static const char *SCRIPTS[] = {"new,write,lock,unlock,free", "new,lock,write", "new,own,free"};
    int si;
    KIND = "shmcrash";
    for (si = 0; si < 3; si++) {
        int total, k, after, pass;
        for (pass = 0; pass < 2; pass++) {
            int kmax = pass ? total : 1;
            for (k = 0; k < kmax; k++) for (after = 0; after < (pass ? 2 : 1); after++) {
                Cmd c; Rep rep; const char *p = SCRIPTS[si];
                if (pass && hist_index++ % NSHARDS != SHARD) continue;
                if (pass) { snprintf(cur_hist, sizeof cur_hist, "%s@%d%c", SCRIPTS[si], k, after ? 'a' : 'b'); hout_progress("sig=shmcrash/crash ipc_hist shmcrash %s", cur_hist); fail_flag = 0; n_crash_points++; n_hist++; }
                unlink_names(); start_workers();
                if (pass) { memset(&c, 0, sizeof c); c.op = C_CRASHAT; c.val = k; c.mode = after; xsend(0, &c, &rep, 5000); }
                while (*p) {
                    memset(&c, 0, sizeof c); c.slot = 0; c.name = 0;
                    if (!strncmp(p, "new", 3)) { c.op = C_MNEW; c.val = 64; } else if (!strncmp(p, "write", 5)) { c.op = C_MWRITE; c.off = 5; c.val = 77; } else if (!strncmp(p, "lock", 4)) c.op = C_MLOCK;
                    else if (!strncmp(p, "unlock", 6)) c.op = C_MUNLOCK; else if (!strncmp(p, "own", 3)) c.op = C_MOWN; else if (!strncmp(p, "free", 4)) c.op = C_MFREE;
                    if (xsend(0, &c, &rep, 2000) == 'X') break;
                    p += strcspn(p, ","); if (*p == ',') p++;
                }
                if (!pass) total = count_calls(0); else shm_recover(SCRIPTS[si], k, after);
                stop_workers(); unlink_names();
            }
        }
    }
    return 0;
}

int main(int argc, char **argv)
{
    int i;
    if (argc < 2) return 2;
    hout_open(); p_libsys_init();
    signal(SIGPIPE, SIG_IGN);
    hs_cap = 1 << 18; hs = calloc(hs_cap, sizeof *hs); hcap = 2 * hs_cap + 1; htab = malloc(sizeof(int) * hcap); for (i = 0; i < hcap; i++) htab[i] = -1;
    KIND = argv[1]; DEPTH = argc > 2 ? atoi(argv[2]) : 4;
    if (argc > 4 && strcmp(argv[1], "replay")) { SHARD = atoi(argv[3]); NSHARDS = atoi(argv[4]); }
    if (!strcmp(KIND, "replay")) { replay_mode = 1; KIND = argv[2]; strncpy(cur_hist, argv[3], sizeof cur_hist - 1); }
    {   /* names: a long common prefix, different in the last character only; "<kind>@<len>" asks for names of <len> characters */
        static char kb[32]; char *at; int len = 0, n, k;
        snprintf(kb, sizeof kb, "%s", KIND); at = strchr(kb, '@');
        if (at) { snprintf(KSUF, sizeof KSUF, "%s", at); len = atoi(at + 1); *at = 0; KIND = kb; }
        if (len > 1100) len = 1100;
        if (len == 0) len = 115;       /* the decorated name "<name>_p_sem_object" is then exactly two hash blocks long (block boundaries of the key derivation) */
        for (k = 0; k < 2; k++) {
            n = snprintf(uname[k], sizeof uname[k], "vfh_%d_a_long_common_prefix_of_more_than_fifty_characters_xxxxxxxxxx_", (int)getpid());
            while (n < len - 1) { uname[k][n] = (char)('a' + n % 26); n++; }
            uname[k][n++] = k ? 'B' : 'A'; uname[k][n] = 0;
        }
    }
    if (replay_mode) {
        if (!strcmp(KIND, "sem")) { SOp h[32]; int n = 0; const char *p = argv[3]; while (*p) { h[n].op = (unsigned char)(strchr(SOPC, *p) - SOPC); p++; h[n].slot = (unsigned char)strtol(p, (char **)&p, 10); h[n].name = h[n].val = h[n].mode = 0; if (*p == '.') { p++; h[n].name = (unsigned char)strtol(p, (char **)&p, 10); p++; h[n].val = (unsigned char)strtol(p, (char **)&p, 10); p++; h[n].mode = (unsigned char)strtol(p, (char **)&p, 10); } n++; if (*p == ',') p++; } srun(h, n, 1); }
        else { MOp h[32]; int n = 0; const char *p = argv[3]; while (*p) { h[n].op = (unsigned char)(strchr(MOPC, *p) - MOPC); p++; h[n].slot = (unsigned char)strtol(p, (char **)&p, 10); h[n].name = h[n].val = 0; if (*p == '.') { p++; h[n].name = (unsigned char)strtol(p, (char **)&p, 10); p++; h[n].val = (unsigned char)strtol(p, (char **)&p, 10); } n++; if (*p == ',') p++; } mrun(h, n, 1); }
        printf("replay finished: %ld violation report(s)\n", hout_nviol);
        return hout_nviol ? 1 : 0;
    }
    if (!strcmp(KIND, "sem")) sem_bfs(); else if (!strcmp(KIND, "shm")) shm_bfs(); else if (!strcmp(KIND, "semcrash")) sem_crash(); else if (!strcmp(KIND, "shmcrash")) shm_crash(); else return 2;
    if (SHARD != 0) nhs = 0;       /* states are counted once */
    hout_stat("states", nhs); hout_stat("transitions", n_steps); hout_stat("histories", n_hist); hout_stat("blocked_calls_observed", n_blocked_seen); hout_stat("final_drains", n_drains); hout_stat("crash_points", n_crash_points);
    hout_stat("evaluations", n_hist); hout_stat("nontrivial", n_blocked_seen + n_crash_points);
    hout_sample("%s: last history [%s]", KIND, cur_hist);
    for (i = 0; i < nsigs; i++) hout_note("signature %s occurred %ld time(s)", sigs[i].sig, sigs[i].n);
    return hout_nviol ? 1 : 0;
}
