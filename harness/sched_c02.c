/* C02: PRWLock under the controlled scheduler (posix and general models).
 * harness: rw <script> <script> [<script> [<script>]]     one script per thread, characters:
 *     R reader_lock..unlock   W writer_lock..unlock   r reader_trylock (cs if TRUE)   w writer_trylock (cs if TRUE)
 * harness: many <N>   one thread takes the read lock N times with reader_trylock (a refusal is accepted: the count taken is what was granted), the write
 *                      lock must then be refused; after as many unlocks the lock must be free again (reader counts kept in narrow bit fields)
 * harness: nest        a reader that, while it holds the read lock, starts and joins a helper taking a read lock, next to a writer:
 *                      every lock is released again, so the rounds must run to completion (a lock that makes new readers wait
 *                      behind a waiting writer deadlocks here)
 */
#include <plibsys.h>
#include "mc.h"
#include <stdlib.h>
#include <string.h>
#include <stdio.h>

static PRWLock *lk;
static int sh_readers, sh_writers;       /* shadow counts (bookkeeping, not instrumented) */
static long data;                        /* plain datum: written by writers, read by readers -> watched by the HB monitor */
static char *scripts[4];
static int results[4][8];

MC_NOINSTR static void enter(int writer, const char *how)
{
    char sig[64];
    if (writer) {
        if (sh_writers || sh_readers) { snprintf(sig, sizeof sig, "exclusion/%s", how); mc_fail("C02", sig, "%s granted the write lock while %d writer(s) and %d reader(s) hold the lock", how, sh_writers, sh_readers); }
        __atomic_add_fetch(&sh_writers, 1, __ATOMIC_SEQ_CST);
    } else {
        if (sh_writers) { snprintf(sig, sizeof sig, "exclusion/%s", how); mc_fail("C02", sig, "%s granted a read lock while a writer holds the lock", how); }
        if (__atomic_add_fetch(&sh_readers, 1, __ATOMIC_SEQ_CST) >= 2) mc_exists(0);
    }
}
MC_NOINSTR static void leave(int writer) { if (writer) __atomic_sub_fetch(&sh_writers, 1, __ATOMIC_SEQ_CST); else __atomic_sub_fetch(&sh_readers, 1, __ATOMIC_SEQ_CST); }

static void section(int writer, const char *how)
{
    enter(writer, how);
    mc_step();
    if (writer) data++; else { volatile long sink = data; (void)sink; }
    mc_step();
    leave(writer);
}

static void *rw_thread(void *arg)
{
    int me = (int)(long)arg, i; const char *s = scripts[me]; char sig[64];
    for (i = 0; s[i]; i++) {
        pboolean ok;
        mc_mark();
        switch (s[i]) {
        case 'R': ok = p_rwlock_reader_lock(lk); if (!ok) mc_fail("C02", "reader_lock-false", "p_rwlock_reader_lock returned FALSE");
                  if (mc_long_waits()) mc_nontrivial(0);
                  section(0, "reader_lock"); if (!p_rwlock_reader_unlock(lk)) mc_fail("C02", "reader_unlock-false", "p_rwlock_reader_unlock returned FALSE"); break;
        case 'W': ok = p_rwlock_writer_lock(lk); if (!ok) mc_fail("C02", "writer_lock-false", "p_rwlock_writer_lock returned FALSE");
                  if (mc_long_waits()) mc_nontrivial(0);
                  section(1, "writer_lock"); if (!p_rwlock_writer_unlock(lk)) mc_fail("C02", "writer_unlock-false", "p_rwlock_writer_unlock returned FALSE"); break;
        case 'r': case 'w':
                  ok = s[i] == 'r' ? p_rwlock_reader_trylock(lk) : p_rwlock_writer_trylock(lk);
                  if (mc_long_waits()) { snprintf(sig, sizeof sig, "trylock-blocked/%s", s[i] == 'r' ? "reader" : "writer"); mc_fail("C02", sig, "%s_trylock waited for the lock to be released (trylock must never block)", s[i] == 'r' ? "reader" : "writer"); }
                  results[me][i] = ok;
                  if (ok) { section(s[i] == 'w', s[i] == 'r' ? "reader_trylock" : "writer_trylock"); if (s[i] == 'r') p_rwlock_reader_unlock(lk); else p_rwlock_writer_unlock(lk); mc_nontrivial(1); }
                  else mc_nontrivial(2);
                  break;
        }
    }
    return NULL;
}

static void h_rw(int argc, char **argv)
{
    int i, tid[4], n = argc > 4 ? 4 : argc; long writes = 0; char out[128] = ""; size_t o = 0;
    mc_name(&data, sizeof data, "harness.data");
    lk = p_rwlock_new();
    if (!lk) mc_fail("C02", "new-failed", "p_rwlock_new returned NULL");
    for (i = 0; i < n; i++) scripts[i] = argv[i];
    for (i = 0; i < n; i++) tid[i] = mc_thread_create(rw_thread, (void *)(long)i);
    for (i = 0; i < n; i++) mc_thread_join(tid[i]);
    /* single thread: a free lock must be grantable in both modes */
    if (!p_rwlock_writer_trylock(lk)) mc_fail("C02", "free-lock-not-grantable/writer", "writer_trylock failed on a lock nobody holds"); p_rwlock_writer_unlock(lk);
    if (!p_rwlock_reader_trylock(lk)) mc_fail("C02", "free-lock-not-grantable/reader", "reader_trylock failed on a lock nobody holds");
    if (!p_rwlock_reader_trylock(lk)) mc_fail("C02", "readers-not-shared", "second reader_trylock failed while only a reader holds the lock");
    if (p_rwlock_writer_trylock(lk)) mc_fail("C02", "exclusion/writer_trylock", "writer_trylock succeeded while readers hold the lock");
    p_rwlock_reader_unlock(lk); p_rwlock_reader_unlock(lk);
    p_rwlock_free(lk);
    for (i = 0; i < n; i++) { int k; for (k = 0; scripts[i][k]; k++) { if (scripts[i][k] == 'W') writes++; if (scripts[i][k] == 'w' && results[i][k]) writes++; if (scripts[i][k] == 'r' || scripts[i][k] == 'w') o += snprintf(out + o, sizeof out - o, "%c%d", scripts[i][k], results[i][k]); } }
    if (data != writes) mc_fail("C02", "lost-update", "data is %ld after %ld writer sections", data, writes);
    mc_outcome("data=%ld %s", data, out);
}

static void *nest_helper(void *a) { (void)a; if (!p_rwlock_reader_lock(lk)) mc_fail("C02", "reader_lock-false", "p_rwlock_reader_lock returned FALSE"); section(0, "reader_lock"); p_rwlock_reader_unlock(lk); return NULL; }
static void *nest_reader(void *a)
{
    int h; (void)a;
    if (!p_rwlock_reader_lock(lk)) mc_fail("C02", "reader_lock-false", "p_rwlock_reader_lock returned FALSE");
    enter(0, "reader_lock");
    h = mc_thread_create(nest_helper, NULL);
    mc_thread_join(h);
    leave(0);
    p_rwlock_reader_unlock(lk);
    return NULL;
}
static void *nest_writer(void *a) { (void)a; if (!p_rwlock_writer_lock(lk)) mc_fail("C02", "writer_lock-false", "p_rwlock_writer_lock returned FALSE"); section(1, "writer_lock"); p_rwlock_writer_unlock(lk); return NULL; }
static void h_nest(int argc, char **argv)
{
    int a, b; (void)argc; (void)argv;
    mc_name(&data, sizeof data, "harness.data");
    lk = p_rwlock_new();
    if (!lk) mc_fail("C02", "new-failed", "p_rwlock_new returned NULL");
    a = mc_thread_create(nest_reader, NULL); b = mc_thread_create(nest_writer, NULL);
    mc_thread_join(a); mc_thread_join(b);
    p_rwlock_free(lk);
    if (data != 1) mc_fail("C02", "lost-update", "data is %ld after one writer section", data);
    mc_nontrivial(0);
    mc_outcome("data=%ld", data);
}

static void h_many(int argc, char **argv)
{
    long n = argc > 0 ? atol(argv[0]) : 40000, i, held = 0, refused_at = -1;
    lk = p_rwlock_new();
    if (!lk) mc_fail("C02", "new-failed", "p_rwlock_new returned NULL");
    for (i = 0; i < n; i++) { if (p_rwlock_reader_trylock(lk)) held++; else if (refused_at < 0) refused_at = i + 1; }
    if (held == 0) mc_fail("C02", "free-lock-not-grantable/reader", "no read lock could be taken on a fresh lock");
    if (p_rwlock_writer_trylock(lk)) mc_fail("C02", "exclusion/writer_trylock-many-readers", "writer_trylock succeeded while %ld read locks are held", held);
    for (i = 0; i < held; i++) if (!p_rwlock_reader_unlock(lk)) mc_fail("C02", "reader_unlock-false", "p_rwlock_reader_unlock number %ld of %ld returned FALSE", i + 1, held);
    if (!p_rwlock_writer_trylock(lk)) mc_fail("C02", "free-lock-not-grantable/after-many-readers", "after %ld read locks (first refusal at call %ld) and as many unlocks the lock is free, but writer_trylock is refused: the lock is unusable from now on", held, refused_at);
    p_rwlock_writer_unlock(lk);
    if (!p_rwlock_reader_trylock(lk)) mc_fail("C02", "free-lock-not-grantable/after-many-readers", "after %ld read locks and as many unlocks reader_trylock is refused on the free lock", held);
    p_rwlock_reader_unlock(lk);
    p_rwlock_free(lk);
    mc_nontrivial(0);
    mc_outcome("held=%ld of %ld", held, n);
}

/* relock (native pthread model only): a thread that holds the lock in one mode asks for the other mode with the blocking call.
 * POSIX lets the native call fail with EDEADLK; whatever happens, the call must not report success (the lock would be held
 * by a writer and a reader at once). */
static void h_relock(int argc, char **argv)
{
    (void)argc; (void)argv;
    lk = p_rwlock_new();
    if (!p_rwlock_writer_lock(lk)) mc_fail("C02", "writer_lock-false", "writer_lock on a free lock returned FALSE");
    if (p_rwlock_reader_trylock(lk)) mc_fail("C02", "exclusion/reader_trylock", "reader_trylock returned TRUE while the write lock is held");
    if (p_rwlock_writer_trylock(lk)) mc_fail("C02", "exclusion/writer_trylock", "writer_trylock returned TRUE while the write lock is held");
    if (p_rwlock_reader_lock(lk)) mc_fail("C02", "exclusion/reader_lock-while-writer", "reader_lock returned TRUE while the calling thread holds the write lock: lock held by a writer and a reader");
    if (!p_rwlock_writer_unlock(lk)) mc_fail("C02", "writer_unlock-false", "writer_unlock returned FALSE");
    if (!p_rwlock_reader_lock(lk)) mc_fail("C02", "reader_lock-false", "reader_lock on a free lock returned FALSE");
    /* (asking for the write lock while holding a read lock is left out: POSIX allows a deadlock there and glibc does deadlock) */
    if (!p_rwlock_reader_unlock(lk)) mc_fail("C02", "reader_unlock-false", "reader_unlock returned FALSE");
    if (!p_rwlock_writer_trylock(lk)) mc_fail("C02", "free-lock-not-grantable/writer", "lock not free after the sequence");
    p_rwlock_writer_unlock(lk);
    p_rwlock_free(lk);
    mc_nontrivial(3);
    mc_outcome("ok");
}

static const McHarness HS[] = { {"rw", h_rw, "<script> per thread over R W r w"}, {"relock", h_relock, "same-thread re-lock in the other mode (posix model)"},
    {"many", h_many, "<N>: N read locks by one thread, then the write lock must be refused, then everything released"},
    {"nest", h_nest, "reader that starts and joins another reader while holding the lock, next to a writer"} };
int main(int argc, char **argv) { return mc_main(argc, argv, HS, (int)(sizeof HS / sizeof HS[0])); }
