/* C05: PUThread: join / exit code / visibility, ref-counted handle, TLS values and destroy notifiers.
 *  join <code|r>                   joinable thread writes a plain variable, exits with p_uthread_exit(code) or returns ("r")
 *  refs <j|d> <script> <body>      creator script over: R ref, U unref, J join (joinable only); body: e empty | s self ref/unref via p_uthread_current
 *  tls <threads>                   one key with a counting destroy notifier, first use races, set/replace/set/get
 *  foreign                         a thread not created by the library calls p_uthread_current (+ref/unref)
 */
#include <plibsys.h>
#include "mc.h"
#include <stdlib.h>
#include <stdio.h>
#include <string.h>

extern long mc_keys_live(void);
#define MODEL (!mc_is_free_running())      /* model / allocator introspection is only available under the scheduler runtime */

/* runs once, single-threaded, before any execution is forked: forces the library's lazily created internal TLS key into
 * existence so that per-scenario block/key accounting starts from a settled baseline */
void mc_harness_zygote(void) { (void)p_uthread_current(); }

static long shared_var;
static int exit_code, use_return;

static ppointer join_body(ppointer arg)
{
    (void)arg;
    shared_var = 4711;
    if (!use_return) p_uthread_exit(exit_code);
    return NULL;
}
static void h_join(int argc, char **argv)
{
    PUThread *t; pint rc; long base = mc_blocks_outstanding();
    use_return = argc < 1 || argv[0][0] == 'r'; exit_code = use_return ? 0 : atoi(argv[0]);
    mc_name(&shared_var, sizeof shared_var, "harness.shared_var");
    /* second argument f: the full constructor with an explicit priority, a stack size and a name */
    if (argc > 1 && argv[1][0] == 'f') t = p_uthread_create_full(join_body, NULL, TRUE, P_UTHREAD_PRIORITY_HIGH, 262144, "a-named-worker-thread");
    else if (argc > 1 && argv[1][0] == 'j') t = p_uthread_create(join_body, NULL, (pboolean)atoi(argv[1] + 1), NULL);       /* j<value>: a joinable flag that is true without being TRUE (4, -1) */
    else t = p_uthread_create(join_body, NULL, TRUE, NULL);
    if (!t) mc_fail("C05", "create-failed", "p_uthread_create returned NULL");
    rc = p_uthread_join(t);
    if (rc != exit_code) mc_fail("C05", use_return ? "join/code-after-return" : "join/exit-code", "p_uthread_join returned %d, the thread %s %d", rc, use_return ? "function returned, expected" : "called p_uthread_exit with", exit_code);
    if (shared_var != 4711) mc_fail("C05", "join/returned-before-thread-finished", "join returned but the thread's write is not there (value %ld)", shared_var);
    if (MODEL && mc_block_state(t) != 1) mc_fail("C05", "refs/handle-freed-while-referenced", "handle released although the creator still holds its reference");
    p_uthread_unref(t);
    if (MODEL && mc_block_state(t) != 0) mc_fail("C05", "refs/handle-not-released", "handle not released after join + the creator's unref (thread finished, all references dropped)");
    if (MODEL && mc_blocks_outstanding() != base) mc_fail("C05", "refs/leak", "%ld heap block(s) still allocated after the thread was joined and unreferenced", mc_blocks_outstanding() - base);
    mc_nontrivial(0);
    mc_outcome("rc=%d", rc);
}

/* ------------------------------------------------------------------ refs */
static char body_kind;
static ppointer refs_body(ppointer arg)
{
    (void)arg;
    if (body_kind == 's') {
        PUThread *me = p_uthread_current();
        if (!me) mc_fail("C05", "current-null", "p_uthread_current returned NULL inside a library thread");
        p_uthread_ref(me); mc_step(); p_uthread_unref(me);
    } else mc_step();
    return NULL;
}
static void h_refs(int argc, char **argv)
{
    int joinable = argc > 0 && argv[0][0] == 'j'; const char *script = argc > 1 ? argv[1] : "U"; PUThread *t; int refs = 1, i; long base = mc_blocks_outstanding();
    body_kind = argc > 2 ? argv[2][0] : 'e';
    t = p_uthread_create(refs_body, NULL, joinable, NULL);
    if (!t) mc_fail("C05", "create-failed", "p_uthread_create returned NULL");
    for (i = 0; script[i]; i++) {
        if (refs <= 0) mc_fail("C05", "bad-script", "script uses the handle after dropping the creator's last reference");
        if (script[i] == 'R') { p_uthread_ref(t); refs++; }
        else if (script[i] == 'U') { refs--; if (MODEL && refs > 0 && mc_block_state(t) != 1) mc_fail("C05", "refs/handle-freed-while-referenced", "handle already released although %d reference(s) of the creator remain", refs + 1); p_uthread_unref(t); }
        else if (script[i] == 'J') { if (p_uthread_join(t) != 0) mc_fail("C05", "join/code-after-return", "join returned non-zero for a thread that returned"); }
        if (MODEL && refs > 0 && mc_block_state(t) != 1) mc_fail("C05", "refs/handle-freed-while-referenced", "handle released although the creator still holds %d reference(s)", refs);
    }
    if (refs != 0) mc_fail("C05", "bad-script", "script must drop all creator references");
    mc_wait_all();
    if (MODEL && mc_block_state(t) != 0) mc_fail("C05", "refs/handle-not-released", "all references dropped and the thread finished, but the handle was not released");
    if (MODEL && mc_block_free_count(t) != 1) mc_fail("C05", "refs/released-more-than-once", "handle released %ld times", mc_block_free_count(t));
    if (MODEL && mc_blocks_outstanding() != base) mc_fail("C05", "refs/leak", "%ld heap block(s) still allocated at the end", mc_blocks_outstanding() - base);
    mc_nontrivial(0);
    mc_outcome("ok");
}

/* ------------------------------------------------------------------ tls */
#define NV 16
static struct { int destroyed; int id; } vals[NV];
static PUThreadKey *key;
MC_NOINSTR static void tls_destroy_count(int id) { vals[id].destroyed++; }
static int null_destroys;
MC_NOINSTR static void null_destroy_count(void) { null_destroys++; }
MC_NOINSTR static int null_destroys_now(void) { return null_destroys; }
static char tls_variant = 'a';
static void tls_destroy(ppointer p) { int id; if (p == NULL) { null_destroy_count(); return; } id = (int)((char *)p - (char *)vals) / (int)sizeof vals[0]; tls_destroy_count(id); }
MC_NOINSTR static int destroyed_of(int id) { return vals[id].destroyed; }

static volatile pint tls_holding, tls_may_exit;
static ppointer tls_body(ppointer arg)
{
    int me = (int)(long)arg, b = me * 4; ppointer got;
    if (tls_variant == 'c') {          /* the key reference is freed by the creator while this thread still holds a value: the value is still destroyed once at exit */
        p_uthread_set_local(key, &vals[b + 2]);
        p_atomic_int_set(&tls_holding, 1);
        while (!p_atomic_int_get(&tls_may_exit)) p_uthread_yield();
        return NULL;
    }
    if (tls_variant == 'b') {          /* replace on an empty slot, replace with NULL, then a value left at exit */
        p_uthread_replace_local(key, &vals[b + 0]);
        if (destroyed_of(b + 0) != 0) mc_fail("C05", "tls/replace-destroyed-new-value", "replace_local on an empty slot passed the new value to the destroy notifier");
        mc_step();
        p_uthread_replace_local(key, NULL);
        if (destroyed_of(b + 0) != 1) mc_fail("C05", "tls/replace-did-not-destroy", "replace_local(key, NULL) did not run the destroy notifier for the replaced value (count %d)", destroyed_of(b + 0));
        if (p_uthread_get_local(key) != NULL) mc_fail("C05", "tls/value-not-per-thread", "get_local after replace_local(NULL) is not NULL");
        p_uthread_set_local(key, &vals[b + 2]);
        return NULL;
    }
    if (p_uthread_get_local(key) != NULL) mc_fail("C05", "tls/not-null-initially", "fresh thread sees a non-NULL TLS value");
    p_uthread_set_local(key, &vals[b + 0]);                  /* v: overwritten by replace -> destroyed once */
    got = p_uthread_get_local(key);
    if (got != &vals[b + 0]) mc_fail("C05", "tls/value-not-per-thread", "get_local returned another value than the one this thread stored");
    p_uthread_replace_local(key, &vals[b + 1]);              /* w: overwritten by set_local -> never destroyed */
    if (destroyed_of(b + 0) != 1) mc_fail("C05", "tls/replace-did-not-destroy", "replace_local did not run the destroy notifier for the replaced value (count %d)", destroyed_of(b + 0));
    mc_step();
    p_uthread_set_local(key, &vals[b + 2]);                  /* x: left at exit -> destroyed once */
    if (destroyed_of(b + 1) != 0) mc_fail("C05", "tls/set-destroyed", "set_local ran the destroy notifier for the value it overwrote");
    got = p_uthread_get_local(key);
    if (got != &vals[b + 2]) mc_fail("C05", "tls/value-not-per-thread", "get_local does not return the thread's own last value");
    return NULL;
}
static void h_tls(int argc, char **argv)
{
    int n = argc > 0 ? atoi(argv[0]) : 2, i; PUThread *t[3]; long keys0 = mc_keys_live(), blocks0 = mc_blocks_outstanding();
    tls_variant = argc > 1 ? argv[1][0] : 'a';
    key = p_uthread_local_new(tls_destroy);
    if (!key) mc_fail("C05", "local-new-failed", "p_uthread_local_new returned NULL");
    for (i = 0; i < n; i++) t[i] = p_uthread_create(tls_body, (ppointer)(long)i, TRUE, NULL);
    if (tls_variant == 'c') {
        while (!p_atomic_int_get(&tls_holding)) p_uthread_yield();
        p_uthread_local_free(key);
        p_atomic_int_set(&tls_may_exit, 1);
        p_uthread_join(t[0]); p_uthread_unref(t[0]);
        if (destroyed_of(2) != 1) mc_fail("C05", "tls/exit-value-destroy-count/key-freed-first", "a value left at thread exit was destroyed %d times (expected exactly once) when the key reference had been freed while the thread was still running", destroyed_of(2));
        mc_nontrivial(0); mc_outcome("ok");
        return;
    }
    for (i = 0; i < n; i++) { p_uthread_join(t[i]); p_uthread_unref(t[i]); }
    for (i = 0; i < n; i++) {
        int b = i * 4;
        if (destroyed_of(b + 0) != 1) mc_fail("C05", "tls/replaced-value-destroy-count", "value replaced with replace_local destroyed %d times (expected exactly once)", destroyed_of(b + 0));
        if (tls_variant == 'a' && destroyed_of(b + 1) != 0) mc_fail("C05", "tls/set-destroyed", "value overwritten with set_local was passed to the destroy notifier");
        if (destroyed_of(b + 2) != 1) mc_fail("C05", "tls/exit-value-destroy-count", "non-NULL value left at thread exit destroyed %d times (expected exactly once)", destroyed_of(b + 2));
    }
    if (null_destroys_now()) mc_fail("C05", "tls/notifier-called-with-null", "the destroy notifier was called %d time(s) with NULL (it must run only for non-NULL stored values)", null_destroys_now());
    if (MODEL && mc_keys_live() != keys0 + 1) mc_fail("C05", "tls/native-keys", "%ld native TLS keys allocated for one PUThreadKey (the loser of the creation race must delete its key)", mc_keys_live() - keys0);
    p_uthread_local_free(key);
    if (MODEL && mc_blocks_outstanding() != blocks0) mc_fail("C05", "tls/leak", "%ld heap block(s) still allocated after the threads ended and the key reference was freed (a loser of the first-use race must release what it allocated)", mc_blocks_outstanding() - blocks0);
    mc_nontrivial(0);
    mc_outcome("ok");
}

/* ------------------------------------------------------------------ library shut down from a foreign thread that exits afterwards */
static void *shutdown_body(void *arg)
{
    PUThread *me = p_uthread_current(); (void)arg;
    if (!me) mc_fail("C05", "current-null", "p_uthread_current returned NULL");
    p_libsys_shutdown();          /* releases the thread's handle; nothing may touch it again when this thread exits */
    return NULL;
}
static void h_shutdown(int argc, char **argv)
{
    int t; (void)argc; (void)argv;
    t = mc_thread_create(shutdown_body, NULL);
    mc_thread_join(t);
    mc_nontrivial(0);
    mc_outcome("ok");
}

/* ------------------------------------------------------------------ foreign thread */
static void *foreign_body(void *arg)
{
    PUThread *me = p_uthread_current(), *again;
    (void)arg;
    if (!me) mc_fail("C05", "current-null", "p_uthread_current returned NULL in a foreign thread");
    again = p_uthread_current();
    if (again != me) mc_fail("C05", "current-not-stable", "p_uthread_current returned two different handles in one thread");
    p_uthread_ref(me); mc_step(); p_uthread_unref(me);
    if (MODEL && mc_block_state(me) != 1) mc_fail("C05", "refs/handle-freed-while-referenced", "foreign thread's handle released while the thread is running");
    return me;
}
static void h_foreign(int argc, char **argv)
{
    long base = mc_blocks_outstanding(); int a, b; (void)argc; (void)argv;
    a = mc_thread_create(foreign_body, NULL); b = mc_thread_create(foreign_body, NULL);
    mc_thread_join(a); mc_thread_join(b);
    if (MODEL && mc_blocks_outstanding() != base) mc_fail("C05", "refs/leak", "%ld heap block(s) of foreign threads still allocated after they exited", mc_blocks_outstanding() - base);
    mc_nontrivial(0);
    mc_outcome("ok");
}

static const McHarness HS[] = {
    {"join", h_join, "<code|r>"}, {"refs", h_refs, "<j|d> <script RUJ> <e|s>"}, {"tls", h_tls, "<threads>"}, {"foreign", h_foreign, ""}, {"shutdown", h_shutdown, ""},
};
int main(int argc, char **argv) { return mc_main(argc, argv, HS, 5); }
