/* C20: resource neutrality.  Programs = sequences of cross-module steps (each step creates, uses and frees objects, or is a
 * call that fails); after every program the ledgers must be back at their initial state: library allocations (through the
 * public allocator table), open descriptors (/proc/self/fd), shared mappings (byte exact), IPC names, dlopen handles,
 * native pthread objects; no descriptor may be closed twice.  In addition every single injected system-call failure of
 * every single-step program (constructor error exits).
 *
 * usage: resource_seq seq <depth> <shard> <nshards> | inject | run <steps e.g. 3.7.12> [<inject-index>]
 */
#define _GNU_SOURCE
#include <plibsys.h>
#include "hout.h"
#include "netns.h"
#include <dirent.h>
#include <dlfcn.h>
#include <errno.h>
#include <fcntl.h>
#include <poll.h>
#include <pthread.h>
#include <semaphore.h>
#include <stdarg.h>
#include <sys/mman.h>
#include <sys/socket.h>
#include <sys/stat.h>
#include <sys/wait.h>
#include <unistd.h>

extern void ipcnames_remember(const char *path);
extern int ipcnames_live(char *buf, size_t sz);

/* ------------------------------------------------------------------ ledgers */
static long live_blocks; static pthread_mutex_t amtx = PTHREAD_MUTEX_INITIALIZER;
static ppointer v_malloc(psize n) { void *p = malloc(n ? n : 1); pthread_mutex_lock(&amtx); if (p) live_blocks++; pthread_mutex_unlock(&amtx); return p; }
static ppointer v_realloc(ppointer m, psize n) { void *p = realloc(m, n ? n : 1); pthread_mutex_lock(&amtx); if (p && !m) live_blocks++; pthread_mutex_unlock(&amtx); return p; }
static void v_free(ppointer m) { pthread_mutex_lock(&amtx); if (m) live_blocks--; pthread_mutex_unlock(&amtx); free(m); }

static int armed;                      /* wrappers inject / record only while a program runs */
static long call_idx, inject_at = -1; static char injected_call[32];
static char problems[800];
static void problem(const char *fmt, ...) { va_list ap; size_t o = strlen(problems); va_start(ap, fmt); vsnprintf(problems + o, sizeof problems - o, fmt, ap); va_end(ap); }
static int inject(const char *what) { if (!armed) return 0; if (call_idx++ == inject_at) { snprintf(injected_call, sizeof injected_call, "%s", what); return 1; } return 0; }

/* mappings with a descriptor (shared memory) */
static struct { char *a; size_t len; } maps[32]; static int nmaps;
void *__real_mmap(void *, size_t, int, int, int, off_t); int __real_munmap(void *, size_t);
void *__wrap_mmap(void *a, size_t l, int p, int f, int fd, off_t o)
{
    void *r;
    if (fd < 0 || !armed) return __real_mmap(a, l, p, f, fd, o);
    if (inject("mmap")) { errno = ENOMEM; return MAP_FAILED; }
    r = __real_mmap(a, l, p, f, fd, o);
    if (r != MAP_FAILED && nmaps < 32) { maps[nmaps].a = r; maps[nmaps].len = (l + 4095) & ~(size_t)4095; nmaps++; }
    return r;
}
int __wrap_munmap(void *a, size_t l)
{
    int i; size_t pl = (l + 4095) & ~(size_t)4095;
    if (armed) for (i = 0; i < nmaps; i++) if (maps[i].a == a) { if (pl >= maps[i].len) { maps[i] = maps[--nmaps]; } else { maps[i].a += pl; maps[i].len -= pl; } break; }
    return __real_munmap(a, l);
}
/* pthread objects */
static long n_mutex, n_cond, n_rwlock, n_dl;
#define COUNTED(name, ctr, delta, proto, args) int __real_##name proto; int __wrap_##name proto { int r = __real_##name args; if (armed && r == 0) ctr += delta; return r; }
COUNTED(pthread_mutex_init, n_mutex, 1, (pthread_mutex_t *m, const pthread_mutexattr_t *a), (m, a))
COUNTED(pthread_mutex_destroy, n_mutex, -1, (pthread_mutex_t *m), (m))
COUNTED(pthread_cond_init, n_cond, 1, (pthread_cond_t *c, const pthread_condattr_t *a), (c, a))
COUNTED(pthread_cond_destroy, n_cond, -1, (pthread_cond_t *c), (c))
COUNTED(pthread_rwlock_init, n_rwlock, 1, (pthread_rwlock_t *l, const pthread_rwlockattr_t *a), (l, a))
COUNTED(pthread_rwlock_destroy, n_rwlock, -1, (pthread_rwlock_t *l), (l))
void *__real_dlopen(const char *, int); int __real_dlclose(void *);
void *__wrap_dlopen(const char *p, int f) { void *h; if (inject("dlopen")) return NULL; h = __real_dlopen(p, f); if (armed && h) n_dl++; return h; }
int __wrap_dlclose(void *h) { if (armed) n_dl--; return __real_dlclose(h); }
/* descriptors: double close detection */
int __real_close(int);
/* close: an injected failure is the Linux one - the descriptor IS released, then EINTR is reported; closing it again would hit a descriptor that is
 * no longer the caller's (in a threaded program: somebody else's) */
int __wrap_close(int fd)
{
    int r = __real_close(fd), e = errno;
    if (armed && r != 0 && e == EBADF) problem("close(%d) on a descriptor that is not open (closed twice); ", fd);
    if (armed && r == 0 && fd > 2 && inject("close")) { errno = EINTR; return -1; }
    errno = e; return r;
}
/* failure injection on calls whose error exits must clean up */
#define FAILING(ret, name, failret, err, proto, args) ret __real_##name proto; ret __wrap_##name proto { if (inject(#name)) { errno = err; return failret; } return __real_##name args; }
FAILING(int, socket, -1, EMFILE, (int d, int t, int p), (d, t, p))
FAILING(int, bind, -1, EACCES, (int fd, const struct sockaddr *a, socklen_t l), (fd, a, l))
FAILING(int, listen, -1, EADDRINUSE, (int fd, int b), (fd, b))
FAILING(int, accept, -1, EMFILE, (int fd, struct sockaddr *a, socklen_t *l), (fd, a, l))
FAILING(int, getsockname, -1, ENOBUFS, (int fd, struct sockaddr *a, socklen_t *l), (fd, a, l))
FAILING(int, getsockopt, -1, ENOBUFS, (int fd, int lv, int o, void *v, socklen_t *l), (fd, lv, o, v, l))
FAILING(int, ftruncate, -1, EINVAL, (int fd, off_t l), (fd, l))
FAILING(int, fstat, -1, EIO, (int fd, struct stat *st), (fd, st))
FAILING(DIR *, opendir, NULL, EMFILE, (const char *p), (p))
FAILING(int, pthread_create, EAGAIN, EAGAIN, (pthread_t *t, const pthread_attr_t *a, void *(*f)(void *), void *arg), (t, a, f, arg))
int __real_shm_open(const char *, int, mode_t);
int __wrap_shm_open(const char *name, int oflag, mode_t mode)
{
    if (oflag & O_CREAT) { char p[80]; snprintf(p, sizeof p, "/dev/shm/%s", name[0] == '/' ? name + 1 : name); ipcnames_remember(p); }
    if (inject("shm_open")) { errno = EACCES; return -1; }
    return __real_shm_open(name, oflag, mode);
}
sem_t *__real_sem_open(const char *, int, ...);
sem_t *__wrap_sem_open(const char *name, int oflag, ...)
{
    mode_t mode = 0; unsigned value = 0;
    if (oflag & O_CREAT) { va_list ap; char p[80]; va_start(ap, oflag); mode = va_arg(ap, mode_t); value = va_arg(ap, unsigned); va_end(ap); snprintf(p, sizeof p, "/dev/shm/sem.%s", name[0] == '/' ? name + 1 : name); ipcnames_remember(p); }
    if (inject("sem_open")) { errno = EACCES; return SEM_FAILED; }
    return (oflag & O_CREAT) ? __real_sem_open(name, oflag, mode, value) : __real_sem_open(name, oflag);
}

static int fd_snapshot(int *out, int max)
{
    DIR *d; struct dirent *e; int n = 0, dfd;
    armed = 0; d = opendir("/proc/self/fd");
    if (!d) return -1;
    dfd = dirfd(d);
    while ((e = readdir(d)) && n < max) { int fd; if (e->d_name[0] == '.') continue; fd = atoi(e->d_name); if (fd != dfd) out[n++] = fd; }
    closedir(d);
    return n;
}

/* ------------------------------------------------------------------ steps */
static char scratch[256], ini_path[300], junk_path[300], nm[64], pre_ini_path[300];
static pint cmp_int(pconstpointer a, pconstpointer b) { return P_POINTER_TO_INT(a) - P_POINTER_TO_INT(b); }
static ppointer thr_body(ppointer a) { return a; }
static ppointer thr_body_tls(ppointer a) { PUThread *me = p_uthread_current(); (void)me; return a; }
static void *foreign_thread(void *a) { PUThread *me = p_uthread_current(); (void)me; return a; }

static void st_tree(void) { int t; for (t = 0; t < 3; t++) { PTree *tr = p_tree_new((PTreeType)t, cmp_int); int i; for (i = 0; i < 6; i++) p_tree_insert(tr, P_INT_TO_POINTER(i * 7 % 5 + 1), NULL); p_tree_remove(tr, P_INT_TO_POINTER(3)); p_tree_free(tr); } }
static void st_hash(void) { PHashTable *h = p_hash_table_new(); PList *l; p_hash_table_insert(h, P_INT_TO_POINTER(1), NULL); p_hash_table_insert(h, P_INT_TO_POINTER(102), NULL); p_hash_table_insert(h, P_INT_TO_POINTER(203), NULL); p_hash_table_insert(h, P_INT_TO_POINTER(304), NULL); p_hash_table_insert(h, P_INT_TO_POINTER(7), NULL); l = p_hash_table_keys(h); p_list_free(l); l = p_hash_table_values(h); p_list_free(l); p_hash_table_remove(h, P_INT_TO_POINTER(1)); p_hash_table_free(h);      /* freed with a chain of three nodes in one bucket */ l = p_list_append(NULL, NULL); l = p_list_prepend(l, NULL); l = p_list_reverse(l); p_list_free(l); }
static void st_ini(void) { PIniFile *f = p_ini_file_new(ini_path); PList *l, *c; if (p_ini_file_parse(f, NULL)) { p_ini_file_parse(f, NULL); l = p_ini_file_sections(f); for (c = l; c; c = c->next) p_free(c->data); p_list_free(l); l = p_ini_file_parameter_list(f, "lists", "l"); for (c = l; c; c = c->next) p_free(c->data); p_list_free(l); } p_ini_file_free(f); f = p_ini_file_new("/nonexistent/file.ini"); p_ini_file_parse(f, NULL); p_ini_file_free(f);
    f = p_ini_file_new(pre_ini_path); if (p_ini_file_parse(f, NULL)) { pchar *v = p_ini_file_parameter_string(f, "s", "k", NULL); p_free(v); } p_ini_file_free(f); }      /* key lines before the first section, an empty section, a repeated key */
static void st_crypto(void) { int t; for (t = (int)P_CRYPTO_HASH_TYPE_MD5; t <= (int)P_CRYPTO_HASH_TYPE_GOST; t++) { PCryptoHash *h = p_crypto_hash_new((PCryptoHashType)t); pchar *s; p_crypto_hash_update(h, (const puchar *)"x", 1); s = p_crypto_hash_get_string(h); p_free(s); p_crypto_hash_free(h); } }
static void st_error(void) { PError *e = p_error_new_literal(1, 2, "m"), *c = p_error_copy(e), *n = NULL; p_error_set_error_p(&n, 1, 2, "x"); p_error_clear(e); p_error_free(e); p_error_free(c); p_error_free(n); }
static void st_dir(void) { PDir *d = p_dir_new(scratch, NULL); PDirEntry *e; while ((e = p_dir_get_next_entry(d, NULL)) != NULL) p_dir_entry_free(e); p_dir_rewind(d, NULL); p_dir_free(d); }
static void st_dir_missing(void) { PError *e = NULL; PDir *d = p_dir_new("/nonexistent/dir", &e); p_dir_free(d); p_error_free(e); }
static void st_tcp_ok(void)
{
    PSocketAddress *lo = p_socket_address_new("127.0.0.1", 0), *la = NULL, *ra; PSocket *srv = p_socket_new(P_SOCKET_FAMILY_INET, P_SOCKET_TYPE_STREAM, P_SOCKET_PROTOCOL_TCP, NULL), *cli = p_socket_new(P_SOCKET_FAMILY_INET, P_SOCKET_TYPE_STREAM, P_SOCKET_PROTOCOL_TCP, NULL), *acc = NULL; char b[4];
    if (srv && cli && lo && p_socket_bind(srv, lo, TRUE, NULL) && p_socket_listen(srv, NULL) && (la = p_socket_get_local_address(srv, NULL)) != NULL) {
        p_socket_set_timeout(srv, 2000); p_socket_set_timeout(cli, 2000);
        if (p_socket_connect(cli, la, NULL) && (acc = p_socket_accept(srv, NULL)) != NULL) { p_socket_send(cli, "ab", 2, NULL); p_socket_set_timeout(acc, 2000); p_socket_receive(acc, b, 2, NULL); ra = p_socket_get_remote_address(acc, NULL); p_socket_address_free(ra); p_socket_shutdown(acc, TRUE, TRUE, NULL); }
    }
    p_socket_free(acc); p_socket_free(cli); p_socket_free(srv); p_socket_address_free(lo); p_socket_address_free(la);
}
static void st_tcp_refused(void)
{   /* connect to a port that was bound and closed again: refused */
    PSocketAddress *lo = p_socket_address_new("127.0.0.1", 0), *la = NULL; PSocket *tmp = p_socket_new(P_SOCKET_FAMILY_INET, P_SOCKET_TYPE_STREAM, P_SOCKET_PROTOCOL_TCP, NULL), *cli; PError *e = NULL;
    if (tmp && lo && p_socket_bind(tmp, lo, TRUE, NULL)) la = p_socket_get_local_address(tmp, NULL);
    p_socket_free(tmp);
    cli = p_socket_new(P_SOCKET_FAMILY_INET, P_SOCKET_TYPE_STREAM, P_SOCKET_PROTOCOL_TCP, NULL);
    if (cli && la) { p_socket_set_timeout(cli, 1000); p_socket_connect(cli, la, &e); }
    p_error_free(e); p_socket_free(cli); p_socket_address_free(lo); p_socket_address_free(la);
}
static void st_udp(void)
{   /* datagrams to oneself (both families), received once with and once without the optional sender-address out-parameter; a send_to on the way */
    int f;
    for (f = 0; f < 2; f++) {
        PSocketAddress *lo = p_socket_address_new(f ? "::1" : "127.0.0.1", 0), *ua = NULL, *from = NULL; char b[8];
        PSocket *u = p_socket_new(f ? P_SOCKET_FAMILY_INET6 : P_SOCKET_FAMILY_INET, P_SOCKET_TYPE_DATAGRAM, P_SOCKET_PROTOCOL_UDP, NULL);
        if (u && lo && p_socket_bind(u, lo, TRUE, NULL) && (ua = p_socket_get_local_address(u, NULL)) != NULL) {
            p_socket_set_timeout(u, 500);
            if (p_socket_send_to(u, ua, "one", 3, NULL) == 3) p_socket_receive_from(u, NULL, b, sizeof b, NULL);
            if (p_socket_send_to(u, ua, "two", 3, NULL) == 3) p_socket_receive_from(u, &from, b, sizeof b, NULL);
            if (p_socket_send_to(u, ua, "", 0, NULL) == 0) p_socket_receive(u, b, sizeof b, NULL);
        }
        p_socket_address_free(from); p_socket_free(u); p_socket_address_free(lo); p_socket_address_free(ua);
    }
}
static void st_timeouts(void)
{   /* accept and datagram receive that time out, bind to a port in use */
    PSocketAddress *lo = p_socket_address_new("127.0.0.1", 0), *la = NULL; PSocket *srv = p_socket_new(P_SOCKET_FAMILY_INET, P_SOCKET_TYPE_STREAM, P_SOCKET_PROTOCOL_TCP, NULL), *u = p_socket_new(P_SOCKET_FAMILY_INET, P_SOCKET_TYPE_DATAGRAM, P_SOCKET_PROTOCOL_UDP, NULL), *dup, *acc; PError *e = NULL; char b[4];
    if (srv && lo && p_socket_bind(srv, lo, FALSE, NULL) && p_socket_listen(srv, NULL)) {
        p_socket_set_timeout(srv, 20); acc = p_socket_accept(srv, &e); p_socket_free(acc); p_error_free(e); e = NULL;
        la = p_socket_get_local_address(srv, NULL);
        dup = p_socket_new(P_SOCKET_FAMILY_INET, P_SOCKET_TYPE_STREAM, P_SOCKET_PROTOCOL_TCP, NULL);
        if (dup && la) p_socket_bind(dup, la, FALSE, &e);
        p_error_free(e); e = NULL; p_socket_free(dup);
    }
    if (u && lo && p_socket_bind(u, lo, TRUE, NULL)) { p_socket_set_timeout(u, 20); p_socket_receive_from(u, NULL, b, sizeof b, &e); p_error_free(e); }
    p_socket_free(srv); p_socket_free(u); p_socket_address_free(lo); p_socket_address_free(la);
}
static void st_sem(void) { PSemaphore *a = p_semaphore_new(nm, 1, P_SEM_ACCESS_CREATE, NULL), *b = p_semaphore_new(nm, 5, P_SEM_ACCESS_OPEN, NULL); if (a) { p_semaphore_acquire(a, NULL); p_semaphore_release(a, NULL); } p_semaphore_free(b); if (a) p_semaphore_take_ownership(a); p_semaphore_free(a); }
static void st_shm_equal(void) { PShm *a = p_shm_new(nm, 5000, P_SHM_ACCESS_READWRITE, NULL), *b = p_shm_new(nm, 5000, P_SHM_ACCESS_READONLY, NULL); if (a) { p_shm_lock(a, NULL); p_shm_unlock(a, NULL); } p_shm_free(b); if (a) p_shm_take_ownership(a); p_shm_free(a); }
static void st_shm_diff(void) { PShm *a = p_shm_new(nm, 3 * 4096, P_SHM_ACCESS_READWRITE, NULL), *b = p_shm_new(nm, 100, P_SHM_ACCESS_READWRITE, NULL), *c = p_shm_new(nm, 5 * 4096, P_SHM_ACCESS_READWRITE, NULL); p_shm_free(b); p_shm_free(c); if (a) p_shm_take_ownership(a); p_shm_free(a); }
static void st_shmbuf(void) { PShmBuffer *a = p_shm_buffer_new(nm, 9000, NULL), *b = p_shm_buffer_new(nm, 9000, NULL), *c = p_shm_buffer_new(nm, 20000, NULL); char x[4] = "abc"; if (a) p_shm_buffer_write(a, x, 3, NULL); if (b) p_shm_buffer_read(b, x, 3, NULL); p_shm_buffer_free(c); p_shm_buffer_free(b); if (a) p_shm_buffer_take_ownership(a); p_shm_buffer_free(a); }
static void st_shm_bad(void) { PError *e = NULL; PShm *a = p_shm_new(nm, 0, P_SHM_ACCESS_READWRITE, &e); p_shm_free(a); p_error_free(e); }
static void st_thread(void) { PUThread *t = p_uthread_create(thr_body_tls, NULL, TRUE, "worker"); if (t) { p_uthread_join(t); p_uthread_unref(t); } }
static void st_detached(void)
{   /* a detached thread cannot be joined: wait (bounded) until its exit-time clean-up has released the handle, then the ledgers are judged */
    long before = live_blocks; PUThread *t = p_uthread_create(thr_body, NULL, FALSE, NULL); struct timespec ts = {0, 5000000}; int i;
    if (t) p_uthread_unref(t);
    for (i = 0; i < 600 && live_blocks > before; i++) nanosleep(&ts, NULL);
    nanosleep(&ts, NULL);
}
static void st_foreign(void) { pthread_t th; if (pthread_create(&th, NULL, foreign_thread, NULL) == 0) pthread_join(th, NULL); }
static void st_locks(void) { PMutex *m = p_mutex_new(); PCondVariable *c = p_cond_variable_new(); PSpinLock *s = p_spinlock_new(); PRWLock *r = p_rwlock_new(); if (m) { p_mutex_lock(m); p_mutex_unlock(m); } if (r) { p_rwlock_writer_lock(r); p_rwlock_writer_unlock(r); } p_mutex_free(m); p_cond_variable_free(c); p_spinlock_free(s); p_rwlock_free(r); }
static void st_lib(void) { PLibraryLoader *l = p_library_loader_new("libm.so.6"); pchar *e; if (!l) l = p_library_loader_new("/lib/x86_64-linux-gnu/libm.so.6"); if (l) (void)p_library_loader_get_symbol(l, "cos"); p_library_loader_free(l); l = p_library_loader_new("/nonexistent.so"); p_library_loader_free(l); l = p_library_loader_new(junk_path); e = p_library_loader_get_last_error(l); p_free(e); p_library_loader_free(l); }
static void st_tls(void) { PUThreadKey *k = p_uthread_local_new(NULL); p_uthread_set_local(k, &k); (void)p_uthread_get_local(k); p_uthread_set_local(k, NULL); p_uthread_local_free(k); }

static const struct { const char *name; void (*fn)(void); } ST[] = {
    {"trees", st_tree}, {"hashtable-list", st_hash}, {"inifile", st_ini}, {"cryptohash", st_crypto}, {"errors", st_error}, {"dir", st_dir}, {"dir-missing", st_dir_missing},
    {"tcp-exchange", st_tcp_ok}, {"tcp-refused", st_tcp_refused}, {"socket-timeouts-bind-in-use", st_timeouts}, {"udp-exchange", st_udp}, {"semaphore-two-handles", st_sem}, {"shm-equal-sizes", st_shm_equal},
    {"shm-different-sizes", st_shm_diff}, {"shmbuffer-handles", st_shmbuf}, {"shm-zero-size-fails", st_shm_bad}, {"thread-join", st_thread}, {"thread-detached", st_detached}, {"foreign-thread", st_foreign},
    {"locks", st_locks}, {"libraryloader", st_lib}, {"tls-key", st_tls},
};
#define NST ((int)(sizeof ST / sizeof ST[0]))

/* runs one program in this (forked) process; returns 0 if every ledger balanced, else fills problems */
static int run_program(const int *steps, int n, long inj)
{
    static const PMemVTable vt = { v_malloc, v_realloc, v_free }; int fds0[256], fds1[256], n0, n1, i, j; long b0, mu0, co0, rw0, dl0; char live[300];
    p_libsys_init(); p_mem_set_vtable(&vt);
    { PUThread *me = p_uthread_current(); (void)me; st_thread(); }     /* settle lazily created library globals (TLS key of the thread module) */
    n0 = fd_snapshot(fds0, 256); b0 = live_blocks; mu0 = n_mutex; co0 = n_cond; rw0 = n_rwlock; dl0 = n_dl; nmaps = 0; problems[0] = 0;
    inject_at = inj; call_idx = 0; injected_call[0] = 0; armed = 1;
    for (i = 0; i < n; i++) ST[steps[i]].fn();
    armed = 0;
    n1 = fd_snapshot(fds1, 256);
    for (i = 0; i < n1; i++) { for (j = 0; j < n0; j++) if (fds0[j] == fds1[i]) break; if (j == n0) { char tgt[128] = "?", lk[64]; ssize_t r; snprintf(lk, sizeof lk, "/proc/self/fd/%d", fds1[i]); r = readlink(lk, tgt, sizeof tgt - 1); if (r > 0) tgt[r] = 0; problem("descriptor %d (%s) left open; ", fds1[i], tgt); } }
    if (live_blocks != b0) problem("%ld library allocation(s) not freed; ", live_blocks - b0);
    for (i = 0; i < nmaps; i++) problem("%zu bytes of a shared mapping at %p still mapped; ", maps[i].len, (void *)maps[i].a);
    if (ipcnames_live(live, sizeof live)) problem("IPC names left: %s; ", live);
    if (n_mutex != mu0 || n_cond != co0 || n_rwlock != rw0) problem("native pthread objects not destroyed (mutex %+ld cond %+ld rwlock %+ld); ", n_mutex - mu0, n_cond - co0, n_rwlock - rw0);
    if (n_dl != dl0) problem("%ld dlopen handle(s) not closed; ", n_dl - dl0);
    return problems[0] ? 1 : 0;
}

static long n_eval, n_nontriv; static struct { char sig[160]; long n; } sigs[96]; static int nsigs;
static void report(const int *steps, int n, long inj, const char *prob, int crashed, const char *icall)
{
    char sg[200], rp[160], desc[64] = ""; size_t o = 0; int i, culprit = steps[n - 1];
    /* attribute to the single step that fails on its own, if any (keeps the signature independent of the sequence around it) */
    for (i = 0; i < n; i++) o += snprintf(desc + o, sizeof desc - o, "%s%d", i ? "." : "", steps[i]);
    snprintf(rp, sizeof rp, "resource_seq run %s %ld", desc, inj);
    if (inj >= 0) snprintf(sg, sizeof sg, "inject/%s/%s/%s", ST[culprit].name, icall[0] ? icall : "?", crashed ? "crash" : strstr(prob, "descriptor") ? "fd" : strstr(prob, "allocation") ? "memory" : strstr(prob, "mapping") ? "mapping" : strstr(prob, "IPC") ? "ipc-name" : strstr(prob, "close(") ? "double-close" : "other");
    else snprintf(sg, sizeof sg, "seq/%s/%s", n == 1 ? ST[culprit].name : desc, crashed ? "crash" : strstr(prob, "descriptor") ? "fd" : strstr(prob, "mapping") ? "mapping" : strstr(prob, "allocation") ? "memory" : strstr(prob, "IPC") ? "ipc-name" : strstr(prob, "close(") ? "double-close" : "other");
    for (i = 0; i < nsigs; i++) if (!strcmp(sigs[i].sig, sg)) { sigs[i].n++; return; }
    if (nsigs < 96) { strcpy(sigs[nsigs].sig, sg); sigs[nsigs].n = 1; nsigs++; }
    { char names[300] = ""; size_t q = 0; for (i = 0; i < n; i++) q += snprintf(names + q, sizeof names - q, "%s%s", i ? ", " : "", ST[steps[i]].name);
      hout_viol("C20", sg, rp, "program [%s]%s%s%s: %s", names, inj >= 0 ? " with system call " : "", inj >= 0 ? icall : "", inj >= 0 ? " forced to fail" : "", crashed ? "process crashed" : prob); }
}

/* fork, run, collect */
static int exec_program(const int *steps, int n, long inj, long *ncalls, char *prob, size_t psz, char *icall)
{
    int pfd[2], st; pid_t pid; struct { long calls; char prob[800]; char icall[32]; } msg;
    if (pipe(pfd) < 0) exit(2);
    pid = fork();
    if (pid == 0) { close(pfd[0]); run_program(steps, n, inj); msg.calls = call_idx; memcpy(msg.prob, problems, sizeof msg.prob); memcpy(msg.icall, injected_call, sizeof msg.icall); if (write(pfd[1], &msg, sizeof msg) < 0) {} _exit(0); }
    close(pfd[1]); memset(&msg, 0, sizeof msg);
    if (read(pfd[0], &msg, sizeof msg) < 0) {}
    close(pfd[0]); waitpid(pid, &st, 0);
    if (ncalls) *ncalls = msg.calls;
    snprintf(prob, psz, "%s", msg.prob); if (icall) snprintf(icall, 32, "%s", msg.icall);
    if (!WIFEXITED(st) || WEXITSTATUS(st) != 0) return 2;
    return msg.prob[0] ? 1 : 0;
}

int main(int argc, char **argv)
{
    char prob[800], icall[32]; int i;
    if (argc < 2) return 2;
    verif_private_netns(); hout_open();
    snprintf(scratch, sizeof scratch, "%s", getenv("VERIF_SCRATCH_DIR") ? getenv("VERIF_SCRATCH_DIR") : "/tmp");
    snprintf(pre_ini_path, sizeof pre_ini_path, "%s/pre_%d.ini", scratch, (int)getpid());
    { FILE *pf = fopen(pre_ini_path, "w"); if (pf) { fputs("a = 1\nb = \"two\"\n; c\n[empty]\n[s]\nk = v\nk = w\nlist = {1 2}\n", pf); fclose(pf); } }
    snprintf(ini_path, sizeof ini_path, "%s/c18.ini", scratch); snprintf(junk_path, sizeof junk_path, "%s/file_a", scratch);
    snprintf(nm, sizeof nm, "vf20_%d", (int)getpid());
    signal(SIGPIPE, SIG_IGN);
    if (!strcmp(argv[1], "run") && argc >= 3) {
        int steps[8], n = 0, rc; const char *p = argv[2]; long inj = argc > 3 ? atol(argv[3]) : -1;
        while (*p && n < 8) { steps[n++] = (int)strtol(p, (char **)&p, 10); if (*p == '.') p++; }
        rc = exec_program(steps, n, inj, NULL, prob, sizeof prob, icall);
        printf("program %s inject %ld (%s): %s\n", argv[2], inj, icall, rc == 0 ? "all ledgers balanced" : rc == 2 ? "CRASH" : prob);
        return rc ? 1 : 0;
    }
    if (!strcmp(argv[1], "seq")) {
        int depth = atoi(argv[2]), shard = atoi(argv[3]), ns = atoi(argv[4]), d; long idx = 0;
        for (d = 1; d <= depth; d++) {
            long total = 1, code; for (i = 0; i < d; i++) total *= NST;
            for (code = 0; code < total; code++, idx++) {
                int steps[8]; long c = code; int rc, culprit_alone = 0;
                if (idx % ns != shard) continue;
                for (i = 0; i < d; i++) { steps[i] = (int)(c % NST); c /= NST; }
                hout_progress("sig=seq/driver resource_seq run (index %ld)", idx);
                rc = exec_program(steps, d, -1, NULL, prob, sizeof prob, NULL); n_eval++;
                if (rc == 0) { n_nontriv++; continue; }
                if (d > 1) {   /* if one of the steps fails on its own, the single-step program already reports it */
                    for (i = 0; i < d; i++) { char p2[800]; if (exec_program(&steps[i], 1, -1, NULL, p2, sizeof p2, NULL) != 0) culprit_alone = 1; }
                    if (culprit_alone) continue;
                }
                report(steps, d, -1, prob, rc == 2, "");
            }
        }
    } else if (!strcmp(argv[1], "inject")) {
        int s;
        for (s = 0; s < NST; s++) {
            long ncalls = 0, k; int rc = exec_program(&s, 1, -1, &ncalls, prob, sizeof prob, NULL);
            if (rc != 0) continue;      /* already broken without injection: reported by seq */
            for (k = 0; k < ncalls; k++) {
                hout_progress("sig=inject/driver resource_seq run %d %ld", s, k);
                rc = exec_program(&s, 1, k, NULL, prob, sizeof prob, icall); n_eval++;
                if (rc == 0) { n_nontriv++; continue; }
                report(&s, 1, k, prob, rc == 2, icall);
            }
        }
    } else return 2;
    unlink(pre_ini_path);
    hout_stat("evaluations", n_eval); hout_stat("nontrivial", n_nontriv); hout_stat("steps", NST);
    hout_sample("program [tcp-refused, shm-different-sizes, thread-detached]: after it, fds, allocations, shared mappings, IPC names, pthread objects and dlopen handles must equal the state before");
    for (i = 0; i < nsigs; i++) hout_note("signature %s occurred %ld time(s)", sigs[i].sig, sigs[i].n);
    return hout_nviol ? 1 : 0;
}
