/* C01: PMutex / PSpinLock under the controlled scheduler.
 * harness args: <kind m|s> <threads> <rounds>        (excl)
 *               <kind m|s>                           (mix, free)
 *               <kind m|s>                           (hold: the holder stays inside while a waiter keeps trying; run with -S <attempts> -p 0:
 *                                                     the waiter is not parked before it has made that many fruitless attempts, so exclusion is
 *                                                     checked for every number of consecutive failed attempts up to the bound)
 */
#include <plibsys.h>
#include "mc.h"
#include <stdlib.h>
#include <string.h>

static int KIND;                 /* 'm' mutex, 's' spinlock */
static PMutex *mtx; static PSpinLock *spn;
static int holders;              /* shadow holder count: plain variable, also watched by the happens-before monitor */
static long counter;             /* plain counter written inside the critical section */
static int rounds;
static int entered_total;

static pboolean do_lock(void)    { return KIND == 'm' ? p_mutex_lock(mtx) : p_spinlock_lock(spn); }
static pboolean do_trylock(void) { return KIND == 'm' ? p_mutex_trylock(mtx) : p_spinlock_trylock(spn); }
static pboolean raw_unlock(void) { return KIND == 'm' ? p_mutex_unlock(mtx) : p_spinlock_unlock(spn); }
static const char *kn(void);
/* unlocking a lock the caller holds succeeds */
static pboolean do_unlock(void)  { pboolean ok = raw_unlock(); if (!ok) { char sig[64]; snprintf(sig, sizeof sig, "%s/unlock-returned-false", kn()); mc_fail("C01", sig, "unlock of a lock held by the caller returned FALSE"); } return ok; }
static const char *kn(void) { return KIND == 'm' ? "mutex" : "spinlock"; }

static void enter_cs(const char *how)
{
    char sig[64];
    if (holders != 0) { snprintf(sig, sizeof sig, "%s/exclusion/%s", kn(), how); mc_fail("C01", sig, "%s returned success while another thread is inside the critical section (holders=%d)", how, holders); }
    holders++;
    mc_step();                   /* visible step inside the critical section: lets the scheduler run others here */
    counter++;
    mc_step();
    holders--;
    entered_total++;
}

static void *excl_thread(void *arg)
{
    int r; (void)arg;
    for (r = 0; r < rounds; r++) {
        pboolean ok;
        mc_mark();
        ok = do_lock();
        if (!ok) { char sig[64]; snprintf(sig, sizeof sig, "%s/lock-returned-false", kn()); mc_fail("C01", sig, "lock call returned FALSE"); }
        if (mc_in_call_blocked()) mc_nontrivial(0);           /* this acquisition had to wait: contention happened */
        enter_cs("lock");
        do_unlock();
    }
    return NULL;
}

/* hold */
static int hold_inside;
static void *hold_waiter(void *arg)
{
    (void)arg;
    if (!do_lock()) mc_fail("C01", "lock-returned-false", "lock call returned FALSE");
    if (hold_inside) { char sig[64]; snprintf(sig, sizeof sig, "%s/exclusion/lock-after-long-wait", kn()); mc_fail("C01", sig, "lock returned success after a long wait while the holder is still inside the critical section"); }
    enter_cs("lock");
    do_unlock();
    return NULL;
}

static void setup(void)
{
    mc_name(&holders, sizeof holders, "harness.holders");
    mc_name(&counter, sizeof counter, "harness.counter");
    mc_name(&entered_total, sizeof entered_total, "harness.entered_total");
    if (KIND == 'm') mtx = p_mutex_new(); else spn = p_spinlock_new();
    if (!mtx && !spn) mc_fail("C01", "new-failed", "lock constructor returned NULL");
}
static void teardown(void) { if (KIND == 'm') p_mutex_free(mtx); else p_spinlock_free(spn); }

static void h_excl(int argc, char **argv)
{
    int nt = argc > 1 ? atoi(argv[1]) : 2, i, tid[8];
    KIND = argc > 0 ? argv[0][0] : 'm'; rounds = argc > 2 ? atoi(argv[2]) : 1;
    setup();
    for (i = 0; i < nt; i++) tid[i] = mc_thread_create(excl_thread, NULL);
    for (i = 0; i < nt; i++) mc_thread_join(tid[i]);
    if (counter != (long)nt * rounds) { char sig[64]; snprintf(sig, sizeof sig, "%s/lost-update", kn()); mc_fail("C01", sig, "counter is %ld after %d x %d protected increments", counter, nt, rounds); }
    teardown();
    mc_outcome("counter=%ld", counter);
}

/* mix: A lock..unlock, B trylock ? cs : skip, C lock..unlock.  trylock must never block and must succeed on a free lock */
static int acquiring;            /* threads between the start of an acquire and their unlock (for the "free, uncontended" clause) */
static long acq_started;         /* number of acquires ever started */
static int b_result = -1;
MC_NOINSTR static void acq_begin(void) { __atomic_add_fetch(&acquiring, 1, __ATOMIC_SEQ_CST); __atomic_add_fetch(&acq_started, 1, __ATOMIC_SEQ_CST); }
MC_NOINSTR static void acq_end(void) { __atomic_sub_fetch(&acquiring, 1, __ATOMIC_SEQ_CST); }
MC_NOINSTR static int acq_now(long *started) { *started = acq_started; return acquiring; }
static void *mix_locker(void *arg)
{
    (void)arg;
    acq_begin();
    do_lock(); enter_cs("lock"); do_unlock();
    acq_end();
    return NULL;
}
static void *mix_trier(void *arg)
{
    pboolean ok; int others_busy, busy_after; long s0, s1; char sig[64];
    (void)arg;
    mc_mark();
    others_busy = acq_now(&s0);
    ok = do_trylock();
    busy_after = acq_now(&s1);
    if (!mc_is_free_running() && mc_in_call_blocked()) { snprintf(sig, sizeof sig, "%s/trylock-blocked", kn()); mc_fail("C01", sig, "the thread had to wait inside trylock (trylock must never block)"); }
    if (ok) { enter_cs("trylock"); do_unlock(); mc_nontrivial(1); }
    else {
        mc_nontrivial(2);
        if (others_busy == 0 && busy_after == 0 && s0 == s1) { snprintf(sig, sizeof sig, "%s/trylock-failed-on-free-lock", kn()); mc_fail("C01", sig, "trylock returned FALSE although no other thread was acquiring or holding the lock"); }
    }
    b_result = ok;
    return NULL;
}
static void h_mix(int argc, char **argv)
{
    int a, b, c;
    KIND = argc > 0 ? argv[0][0] : 'm';
    setup();
    a = mc_thread_create(mix_locker, NULL); b = mc_thread_create(mix_trier, NULL); c = mc_thread_create(mix_locker, NULL);
    mc_thread_join(a); mc_thread_join(b); mc_thread_join(c);
    teardown();
    mc_outcome("trylock=%d counter=%ld", b_result, counter);
}

static void setup(void); static void teardown(void);
static void h_hold(int argc, char **argv)
{
    int t, i;
    KIND = argc > 0 ? argv[0][0] : 's';
    setup();
    mc_name(&hold_inside, sizeof hold_inside, "harness.hold_inside");
    if (!do_lock()) mc_fail("C01", "lock-returned-false", "lock on a free lock returned FALSE");
    hold_inside = 1;
    t = mc_thread_create(hold_waiter, NULL);
    for (i = 0; i < 4; i++) p_uthread_yield();       /* the waiter runs until it is parked (after -S attempts) or yields by itself; the holder stays inside */
    hold_inside = 0;
    do_unlock();
    mc_thread_join(t);
    if (entered_total != 1) mc_fail("C01", "hold/waiter-did-not-enter", "the waiter did not get the lock after the holder released it");
    mc_nontrivial(0);
    mc_outcome("entered=%d", entered_total);
    teardown();
}

/* free: single thread: trylock on a fresh lock TRUE, second trylock FALSE, unlock, trylock TRUE */
static void h_free(int argc, char **argv)
{
    char sig[64];
    KIND = argc > 0 ? argv[0][0] : 'm';
    setup();
    mc_mark();
    if (!do_trylock()) { snprintf(sig, sizeof sig, "%s/trylock-failed-on-free-lock", kn()); mc_fail("C01", sig, "trylock on a fresh lock returned FALSE"); }
    if (do_trylock()) { snprintf(sig, sizeof sig, "%s/exclusion/trylock", kn()); mc_fail("C01", sig, "second trylock on a held lock returned TRUE"); }
    do_unlock();
    if (!do_trylock()) { snprintf(sig, sizeof sig, "%s/trylock-failed-on-free-lock", kn()); mc_fail("C01", sig, "trylock after unlock returned FALSE"); }
    do_unlock();
    if (!do_lock()) mc_fail("C01", "lock-returned-false", "lock on a free lock returned FALSE");
    do_unlock();
    if (mc_in_call_blocked()) mc_fail("C01", "blocked-single-thread", "a call had to wait in a single-threaded run");
    teardown();
    mc_outcome("ok");
}

static const McHarness HS[] = {
    {"excl", h_excl, "<m|s> <threads> <rounds>: lock; cs; unlock"},
    {"mix", h_mix, "<m|s>: two lockers and one trylocker"},
    {"free", h_free, "<m|s>: single thread trylock semantics"},
    {"hold", h_hold, "<m|s>: holder stays inside while a waiter makes -S fruitless attempts"},
};
int main(int argc, char **argv) { return mc_main(argc, argv, HS, (int)(sizeof HS / sizeof HS[0])); }
