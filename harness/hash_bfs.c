/* C15: explicit-state BFS over the real PHashTable (chains in order, white-box) and the real PList, against
 * boring references (assoc array / array).  Built with ASan + UBSan (no-recover): undefined behaviour for any
 * pointer bit pattern aborts the process and is attributed to the history in the progress record.
 *
 * usage: hash_bfs table <maxlive> | hash_bfs list <maxlen> | hash_bfs <table|list> <n> --replay <ops>
 */
#include "phashtable.c"
#include <plibsys.h>
#include "hout.h"
#include <stdint.h>

/* ---------- key universe: collisions, NULL, all-ones, INT_MAX-adjacent low words, negative low words ---------- */
static const uintptr_t U[] = {
    0, 1, 1 + 101, 1 + 2 * 101, 64, (uintptr_t)-1,
    0x7FFFFFFFu, 0x7FFFFFDBu /* INT_MAX-36: first overflowing low word */, 0x7FFFFFDAu, 0x80000000u,
    (uintptr_t)0x17FFFFFFFull, (uintptr_t)0xFFFFFFFF00000001ull, (uintptr_t)0x7FFFFFFF00000066ull,
};
#define NU ((int)(sizeof U / sizeof U[0]))
static char VA, VB;
static void *VALS[4];
#define NV 4

static int replay_mode;
static char cur_hist[2048];
static int fail_flag;
static struct { char sig[128]; long n; } sigs[128]; static int nsigs;
static const char *WHAT = "table";
static int LIM;

static void viol(const char *sig, const char *fmt, ...)
{
    char buf[2048]; va_list ap; int i; char rp[2400];
    va_start(ap, fmt); vsnprintf(buf, sizeof buf, fmt, ap); va_end(ap);
    fail_flag = 1;
    if (replay_mode) printf("  !! %s: %s\n", sig, buf);
    for (i = 0; i < nsigs; i++) if (!strcmp(sigs[i].sig, sig)) { sigs[i].n++; return; }
    if (nsigs < 128) { strcpy(sigs[nsigs].sig, sig); sigs[nsigs].n = 1; nsigs++; }
    snprintf(rp, sizeof rp, "hash_bfs %s %d --replay %s", WHAT, LIM, cur_hist);
    hout_viol("C15", sig, rp, "history [%s]: %s", cur_hist, buf);
}

/* ======================= hash table ======================= */
typedef struct { int present[NU]; int val[NU]; } HRef;
typedef struct { unsigned char kind, k, v; } HOp;   /* kind 0 insert, 1 remove */

static int key_index(const void *p) { int i; for (i = 0; i < NU; i++) if ((uintptr_t)p == U[i]) return i; return -1; }
static int val_index(const void *p) { int i; for (i = 0; i < NV; i++) if (p == VALS[i]) return i; return -1; }

static int hcanon(PHashTable *t, char *buf, size_t sz)
{
    size_t o = 0; puint i; PHashTableNode *n; int guard = 0;
    buf[0] = 0;
    for (i = 0; i < t->size; i++) {
        if (!t->table[i]) continue;
        o += snprintf(buf + o, sz - o, "%u:", i);
        for (n = t->table[i]; n; n = n->next) {
            if (++guard > 64 || o + 32 > sz) return 1;
            o += snprintf(buf + o, sz - o, "%d=%d,", key_index(n->key), val_index(n->value));
        }
        o += snprintf(buf + o, sz - o, ";");
    }
    return 0;
}

static int cmp_ptr(pconstpointer a, pconstpointer b) { return a == b ? 0 : 1; }
/* the comparator is an acceptance predicate (0 = accept), not necessarily an equality: one that accepts nothing, one that accepts everything, one that accepts exactly the values that differ */
static long cmp_calls;
static int cmp_never(pconstpointer a, pconstpointer b) { (void)a; (void)b; cmp_calls++; return 1; }
static int cmp_always(pconstpointer a, pconstpointer b) { (void)a; (void)b; cmp_calls++; return 0; }
static int cmp_differs(pconstpointer a, pconstpointer b) { cmp_calls++; return a != b ? 0 : 1; }

static long n_lookups, n_lists, n_trans;

static void check_list_is(PList *l, const int *want_idx, int nwant, int is_vals, const char *sig, const char *what)
{
    int used[64] = {0}, cnt = 0, i; PList *c;
    for (c = l; c; c = c->next) {
        int idx = is_vals ? val_index(c->data) : key_index(c->data);
        cnt++;
        for (i = 0; i < nwant; i++) if (!used[i] && want_idx[i] == idx) { used[i] = 1; break; }
        if (i == nwant) { viol(sig, "%s lists an element that is not in the reference content (index %d)", what, idx); return; }
        if (cnt > 60) { viol(sig, "%s: list too long / cyclic", what); return; }
    }
    if (cnt != nwant) viol(sig, "%s returned %d elements, reference has %d", what, cnt, nwant);
    if (p_list_length(l) != (psize)cnt) viol(sig, "p_list_length disagrees with the chain of the returned list");
}

static void hvalidate(PHashTable *t, const HRef *r)
{
    int i, v, nk = 0, wk[NU], wv[NU]; PList *l;
    for (i = 0; i < NU; i++) {
        ppointer got = p_hash_table_lookup(t, (pconstpointer)U[i]);
        n_lookups++;
        if (r->present[i]) {
            if (got != VALS[r->val[i]]) viol("table/lookup-present", "lookup(key #%d = %#lx) returned %p, reference value %p", i, (unsigned long)U[i], got, VALS[r->val[i]]);
            wk[nk] = i; wv[nk] = r->val[i]; nk++;
        } else if (got != (ppointer)-1) viol("table/lookup-absent", "lookup(absent key #%d = %#lx) returned %p, documented not-found marker is (ppointer)-1", i, (unsigned long)U[i], got);
    }
    l = p_hash_table_keys(t); check_list_is(l, wk, nk, 0, "table/keys", "p_hash_table_keys"); p_list_free(l);
    l = p_hash_table_values(t); check_list_is(l, wv, nk, 1, "table/values", "p_hash_table_values"); p_list_free(l);
    n_lists += 2;
    for (v = 0; v < NV; v++) {
        int w[NU], nw = 0, f;
        for (i = 0; i < NU; i++) if (r->present[i] && r->val[i] == v) w[nw++] = i;
        for (f = 0; f < 2; f++) {
            l = p_hash_table_lookup_by_value(t, VALS[v], f ? cmp_ptr : NULL);
            check_list_is(l, w, nw, 0, f ? "table/lookup-by-value-func" : "table/lookup-by-value", "p_hash_table_lookup_by_value");
            p_list_free(l); n_lists++;
        }
        {   /* non-equality predicates */
            int wa[NU], na = 0, wd[NU], nd = 0;
            for (i = 0; i < NU; i++) if (r->present[i]) { wa[na++] = i; if (r->val[i] != v) wd[nd++] = i; }
            l = p_hash_table_lookup_by_value(t, VALS[v], cmp_never); check_list_is(l, wa, 0, 0, "table/lookup-by-value-func/rejecting-predicate", "p_hash_table_lookup_by_value(predicate that accepts nothing)"); p_list_free(l);
            l = p_hash_table_lookup_by_value(t, VALS[v], cmp_always); check_list_is(l, wa, na, 0, "table/lookup-by-value-func/accepting-predicate", "p_hash_table_lookup_by_value(predicate that accepts everything)"); p_list_free(l);
            l = p_hash_table_lookup_by_value(t, VALS[v], cmp_differs); check_list_is(l, wd, nd, 0, "table/lookup-by-value-func/non-reflexive-predicate", "p_hash_table_lookup_by_value(predicate that accepts the values that differ)"); p_list_free(l);
            n_lists += 3;
        }
    }
    {   /* white-box: every reference pair appears exactly once in the chains */
        puint b; PHashTableNode *n; int seen[NU] = {0}, cnt = 0;
        for (b = 0; b < t->size; b++) for (n = t->table[b]; n && cnt < 64; n = n->next) {
            int k = key_index(n->key); cnt++;
            if (k < 0 || !r->present[k] || seen[k]) { viol("table/chains", "chain holds key index %d which is %s", k, k < 0 ? "foreign" : seen[k] ? "duplicated" : "not in the reference"); return; }
            seen[k] = 1;
        }
        if (cnt != nk) viol("table/chains", "chains hold %d nodes, reference %d", cnt, nk);
    }
}

static void happly(PHashTable *t, HRef *r, HOp op)
{
    if (op.kind == 0) { p_hash_table_insert(t, (ppointer)U[op.k], VALS[op.v]); r->present[op.k] = 1; r->val[op.k] = op.v; }
    else { p_hash_table_remove(t, (pconstpointer)U[op.k]); r->present[op.k] = 0; }
}

static void hhist_text(const HOp *h, int n, char *buf, size_t sz)
{
    size_t o = 0; int i; buf[0] = 0;
    for (i = 0; i < n && o + 12 < sz; i++) o += snprintf(buf + o, sz - o, "%s%c%d.%d", i ? "," : "", h[i].kind ? 'r' : 'i', h[i].k, h[i].v);
}

typedef struct { char *canon; int parent; HOp op; int depth; } HState;
static HState *hst; static int nhst, hst_cap; static int *htab; static int hcap;
static unsigned long hstr(const char *s) { unsigned long h = 1469598103934665603UL; while (*s) { h ^= (unsigned char)*s++; h *= 1099511628211UL; } return h; }
static int st_find(const char *c) { unsigned long h = hstr(c) % hcap; while (htab[h] >= 0) { if (!strcmp(hst[htab[h]].canon, c)) return htab[h]; h = (h + 1) % hcap; } return -1; }
static int st_add(const char *c, int parent, HOp op, int depth)
{
    unsigned long h;
    if (nhst == hst_cap) { fprintf(stderr, "state table full\n"); exit(2); }
    hst[nhst].canon = strdup(c); hst[nhst].parent = parent; hst[nhst].op = op; hst[nhst].depth = depth;
    h = hstr(c) % hcap; while (htab[h] >= 0) h = (h + 1) % hcap; htab[h] = nhst;
    return nhst++;
}
static int hhist_of(int s, HOp *out) { int n = hst[s].depth, i = n; while (s > 0) { out[--i] = hst[s].op; s = hst[s].parent; } return n; }

static PHashTable *hrebuild(const HOp *h, int n, HRef *r)
{
    PHashTable *t = p_hash_table_new(); int i;
    memset(r, 0, sizeof *r);
    for (i = 0; i < n; i++) happly(t, r, h[i]);
    return t;
}

static int table_replay(const char *ops)
{
    HOp h[256]; int n = 0, i; HRef r; PHashTable *t; char cb[1024]; const char *p = ops;
    replay_mode = 1;
    while (*p && n < 256) { h[n].kind = *p == 'r'; p++; h[n].k = (unsigned char)strtol(p, (char **)&p, 10); if (*p == '.') p++; h[n].v = (unsigned char)strtol(p, (char **)&p, 10); n++; if (*p == ',') p++; }
    t = p_hash_table_new(); memset(&r, 0, sizeof r);
    strncpy(cur_hist, ops, sizeof cur_hist - 1);
    for (i = 0; i < n; i++) {
        printf("step %d: %s key #%d (%#lx) value #%d\n", i + 1, h[i].kind ? "remove" : "insert", h[i].k, (unsigned long)U[h[i].k], h[i].v);
        happly(t, &r, h[i]); hcanon(t, cb, sizeof cb); printf("   chains: %s\n", cb);
        hvalidate(t, &r);
    }
    p_hash_table_free(t);
    printf("replay finished: %ld violation report(s)\n", hout_nviol);
    return hout_nviol ? 1 : 0;
}

static int table_bfs(int maxlive)
{
    int s; HOp z = {0, 0, 0}; long canon_checks = 0; int maxd = 0, collide_states = 0;
    hst_cap = 1 << 21; hst = calloc(hst_cap, sizeof *hst); hcap = 2 * hst_cap + 1; htab = malloc(sizeof(int) * hcap);
    for (s = 0; s < hcap; s++) htab[s] = -1;
    st_add("", -1, z, 0);
    for (s = 0; s < nhst; s++) {
        HOp h[64]; int n = hhist_of(s, h), k, v, kind; HRef r; PHashTable *t; char cb[1024];
        t = hrebuild(h, n, &r);
        hhist_text(h, n, cur_hist, sizeof cur_hist);
        hout_progress("sig=table/readonly hash_bfs table %d --replay %s", maxlive, cur_hist);
        if (hcanon(t, cb, sizeof cb) || strcmp(cb, hst[s].canon)) { viol("table/state-not-determined-by-history", "the same operation sequence run a second time left different chains: %s instead of %s", cb, hst[s].canon); return 1; }
        canon_checks++;
        fail_flag = 0; hvalidate(t, &r);
        p_hash_table_free(t);
        for (kind = 0; kind < 2; kind++) for (k = 0; k < NU; k++) for (v = 0; v < (kind ? 1 : NV); v++) {
            HOp op; int live = 0, i, ns; char hb[2048];
            op.kind = kind; op.k = k; op.v = v;
            t = hrebuild(h, n, &r);
            h[n] = op; hhist_text(h, n + 1, hb, sizeof hb); strcpy(cur_hist, hb);
            hout_progress("sig=table/%s hash_bfs table %d --replay %s", kind ? "remove" : "insert", maxlive, cur_hist);
            fail_flag = 0;
            happly(t, &r, op); n_trans++;
            hvalidate(t, &r);
            for (i = 0; i < NU; i++) live += r.present[i];
            if (!fail_flag && live <= maxlive && hcanon(t, cb, sizeof cb) == 0 && (ns = st_find(cb)) < 0) {
                if (n + 1 >= 60) { fprintf(stderr, "history too long\n"); return 2; }
                st_add(cb, s, op, n + 1);
            }
            p_hash_table_free(t);
        }
    }
    for (s = 0; s < nhst; s++) {
        const char *p = hst[s].canon; int multi = 0;
        if (hst[s].depth > maxd) maxd = hst[s].depth;
        while ((p = strchr(p, ':')) != NULL) { const char *e = strchr(p, ';'), *q; int c = 0; for (q = p; q < e; q++) c += *q == ','; if (c >= 2) multi = 1; p = e; }
        collide_states += multi;
    }
    hout_stat("states", nhst); hout_stat("transitions", n_trans + n_lookups + n_lists);
    hout_stat("table_states", nhst); hout_stat("table_mutating_transitions", n_trans); hout_stat("table_lookups", n_lookups); hout_stat("table_list_queries", n_lists);
    hout_stat("table_states_with_collision_chain", collide_states); hout_stat("max_depth", maxd); hout_stat("canon_on_replay_checks", canon_checks);
    hout_stat("nontrivial", collide_states);
    { HOp h[64]; char hb[1024]; int n = hhist_of(nhst - 1, h); hhist_text(h, n, hb, sizeof hb); hout_sample("table state {%s} reached by [%s] (op = i|r key#.value#; keys: 0=NULL 1,2,3 share a bucket, 5=all-ones, 6=INT_MAX, 7=INT_MAX-36 ...)", hst[nhst - 1].canon, hb); }
    for (s = 0; s < nsigs; s++) hout_note("signature %s occurred %ld time(s)", sigs[s].sig, sigs[s].n);
    return hout_nviol ? 1 : 0;
}

/* ======================= list ======================= */
/* content alphabet: 0 = NULL, 1 = &VA, 2 = &VB.  state = content sequence (PList is a transparent struct) */
#define LMAX 12
typedef struct { int n; unsigned char e[LMAX + 2]; } LRef;
static void *LV(int i) { return VALS[i]; }

static PList *lbuild(const LRef *r) { PList *l = NULL; int i; for (i = 0; i < r->n; i++) l = p_list_append(l, LV(r->e[i])); return l; }
typedef struct { int n; int idx[LMAX + 4]; int overflow; void *ud; } LTrav;
static void ltrav(ppointer data, ppointer ud) { LTrav *t = ud; if (t->n < LMAX + 4) t->idx[t->n++] = val_index(data); else t->overflow = 1; }

static void lcheck(PList *l, const LRef *r, const char *sig)
{
    PList *c; int i = 0; LTrav t; PList *last;
    for (c = l; c; c = c->next, i++) {
        if (i >= r->n) { viol(sig, "list is longer than the reference sequence (%d)", r->n); return; }
        if (c->data != LV(r->e[i])) { viol(sig, "element %d differs from the reference sequence", i); return; }
    }
    if (i != r->n) { viol(sig, "list has %d elements, reference %d", i, r->n); return; }
    if (p_list_length(l) != (psize)r->n) viol("list/length", "p_list_length = %lu, reference %d", (unsigned long)p_list_length(l), r->n);
    last = p_list_last(l);
    if (r->n == 0 ? last != NULL : (last == NULL || last->next != NULL || last->data != LV(r->e[r->n - 1]))) viol("list/last", "p_list_last wrong");
    memset(&t, 0, sizeof t); p_list_foreach(l, ltrav, &t);
    if (t.overflow || t.n != r->n) viol("list/foreach", "foreach visited %d elements, reference %d", t.n, r->n);
    else for (i = 0; i < r->n; i++) if (t.idx[i] != r->e[i]) { viol("list/foreach", "foreach order differs at %d", i); break; }
}

static void lhist(const LRef *r, const char *op, int x) { size_t o = 0; int i; o += snprintf(cur_hist, sizeof cur_hist, "s"); for (i = 0; i < r->n; i++) o += snprintf(cur_hist + o, sizeof cur_hist - o, "%d", r->e[i]); snprintf(cur_hist + o, sizeof cur_hist - o, ",%s%d", op, x); }

static void lapply(PList **l, LRef *r, int op, int x)
{
    int i;
    switch (op) {
    case 0: *l = p_list_append(*l, LV(x)); r->e[r->n++] = x; break;
    case 1: *l = p_list_prepend(*l, LV(x)); memmove(r->e + 1, r->e, r->n); r->e[0] = x; r->n++; break;
    case 2: *l = p_list_remove(*l, LV(x)); for (i = 0; i < r->n; i++) if (r->e[i] == x) { memmove(r->e + i, r->e + i + 1, r->n - i - 1); r->n--; break; } break;
    case 3: *l = p_list_reverse(*l); for (i = 0; i < r->n / 2; i++) { unsigned char t = r->e[i]; r->e[i] = r->e[r->n - 1 - i]; r->e[r->n - 1 - i] = t; } break;
    }
}
static const char *LOPN[] = {"a", "p", "r", "v"};

static int list_replay(const char *ops)
{   /* ops: s<digits>,<op><x> */
    LRef r; PList *l; const char *p = ops + 1; int op = 0, x;
    replay_mode = 1; r.n = 0;
    while (*p && *p != ',') r.e[r.n++] = *p++ - '0';
    if (*p == ',') p++;
    for (op = 0; op < 4; op++) if (*p == LOPN[op][0]) break;
    x = atoi(p + 1);
    strncpy(cur_hist, ops, sizeof cur_hist - 1);
    l = lbuild(&r); lcheck(l, &r, "list/build");
    printf("state of %d elements, then op %s(%d)\n", r.n, LOPN[op], x);
    lapply(&l, &r, op, x); lcheck(l, &r, "list/replay");
    p_list_free(l);
    printf("replay finished: %ld violation report(s)\n", hout_nviol);
    return hout_nviol ? 1 : 0;
}

static int list_bfs(int maxlen)
{
    /* all content sequences of length <= maxlen are states (closure is immediate: every sequence is reachable by appends);
     * from each, every operation is applied and compared */
    long states = 0, trans = 0; int len; LRef r; long code, total;
    for (len = 0; len <= maxlen; len++) {
        total = 1; { int i; for (i = 0; i < len; i++) total *= 3; }
        for (code = 0; code < total; code++) {
            long c = code; int i, op, x;
            r.n = len; for (i = 0; i < len; i++) { r.e[i] = c % 3; c /= 3; }
            states++;
            for (op = 0; op < 4; op++) for (x = 0; x < (op == 3 ? 1 : 3); x++) {
                LRef r2 = r; PList *l; char sig[64];
                lhist(&r, LOPN[op], x);
                snprintf(sig, sizeof sig, "list/%s", op == 0 ? "append" : op == 1 ? "prepend" : op == 2 ? "remove" : "reverse");
                hout_progress("sig=%s hash_bfs list %d --replay %s", sig, maxlen, cur_hist);
                l = lbuild(&r2);
                if (op == 0 && x == 0 && code == 0) lcheck(l, &r2, "list/build");
                lapply(&l, &r2, op, x); trans++;
                lcheck(l, &r2, sig);
                p_list_free(l);
            }
        }
    }
    hout_stat("states", states); hout_stat("transitions", trans); hout_stat("list_states", states); hout_stat("list_transitions", trans);
    hout_stat("nontrivial", states - 4);
    hout_sample("list state s0120 (NULL,a,b,NULL) then r0 / v0 / a2 / p1: every content sequence over {NULL,a,b} up to length %d, every op", maxlen);
    { int s; for (s = 0; s < nsigs; s++) hout_note("signature %s occurred %ld time(s)", sigs[s].sig, sigs[s].n); }
    return hout_nviol ? 1 : 0;
}

int main(int argc, char **argv)
{
    if (argc < 3) return 2;
    hout_open();
    p_libsys_init();
    VALS[0] = NULL; VALS[1] = &VA; VALS[2] = &VB; VALS[3] = (void *)(uintptr_t)-1;      /* the all-ones value is also the in-band not-found marker of p_hash_table_lookup */
    WHAT = argv[1]; LIM = atoi(argv[2]);
    if (argc >= 5 && !strcmp(argv[3], "--replay")) return !strcmp(WHAT, "table") ? table_replay(argv[4]) : list_replay(argv[4]);
    if (!strcmp(WHAT, "table")) return table_bfs(LIM);
    return list_bfs(LIM);
}
