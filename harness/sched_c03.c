/* C03: PCondVariable over the pthread model.
 *  bb <producers> <consumers> <items>   bounded buffer of capacity 1, wake-ups by signal (predicate re-checked in a loop)
 *  gate <waiters>                       W waiters on a flag, one broadcast
 *  held                                 mutex is owned by the waiter when wait returns; a third thread's trylock fails meanwhile
 *  unlocked <waiters>                   signaller sets the predicate under the mutex but signals after unlocking
 */
#include <plibsys.h>
#include "mc.h"
#include <stdlib.h>
#include <stdio.h>
#include <string.h>

static PMutex *m; static PCondVariable *cv_items, *cv_space;
static int slot_full, slot_val;          /* protected by m */
static int produced_sum, consumed_sum, consumed_n, total_items;
static int next_item;
static int nprod, ncons, nitems;

static void setup(void)
{
    m = p_mutex_new(); cv_items = p_cond_variable_new(); cv_space = p_cond_variable_new();
    if (!m || !cv_items || !cv_space) mc_fail("C03", "new-failed", "constructor returned NULL");
    mc_name(&slot_full, sizeof slot_full, "harness.slot_full"); mc_name(&slot_val, sizeof slot_val, "harness.slot_val");
}
static void teardown(void) { p_cond_variable_free(cv_items); p_cond_variable_free(cv_space); p_mutex_free(m); }

static void wait_checked(PCondVariable *cv)
{
    mc_mark();
    if (!p_cond_variable_wait(cv, m)) mc_fail("C03", "wait-returned-false", "p_cond_variable_wait returned FALSE");
    if (!mc_is_free_running() && mc_long_waits() == 0) mc_fail("C03", "wait-did-not-block", "p_cond_variable_wait returned without ever waiting on the condition variable");
    mc_nontrivial(0);
}

static void *producer(void *arg)
{
    (void)arg;
    for (;;) {
        int v;
        p_mutex_lock(m);
        if (next_item >= total_items) { p_mutex_unlock(m); break; }
        v = ++next_item;
        while (slot_full) wait_checked(cv_space);
        slot_full = 1; slot_val = v; produced_sum += v;
        if (!p_cond_variable_signal(cv_items)) mc_fail("C03", "signal-returned-false", "p_cond_variable_signal returned FALSE");
        p_mutex_unlock(m);
    }
    return NULL;
}
static void *consumer(void *arg)
{
    (void)arg;
    for (;;) {
        p_mutex_lock(m);
        while (!slot_full && consumed_n < total_items) wait_checked(cv_items);
        if (consumed_n >= total_items && !slot_full) { p_mutex_unlock(m); break; }
        consumed_sum += slot_val; consumed_n++; slot_full = 0;
        if (consumed_n >= total_items) p_cond_variable_broadcast(cv_items);     /* release the other consumers */
        p_cond_variable_signal(cv_space);
        p_mutex_unlock(m);
    }
    return NULL;
}
static void h_bb(int argc, char **argv)
{
    int i, tid[8], n = 0;
    nprod = argc > 0 ? atoi(argv[0]) : 1; ncons = argc > 1 ? atoi(argv[1]) : 1; total_items = argc > 2 ? atoi(argv[2]) : 2;
    setup();
    for (i = 0; i < ncons; i++) tid[n++] = mc_thread_create(consumer, NULL);
    for (i = 0; i < nprod; i++) tid[n++] = mc_thread_create(producer, NULL);
    for (i = 0; i < n; i++) mc_thread_join(tid[i]);
    if (consumed_n != total_items || consumed_sum != produced_sum || produced_sum != total_items * (total_items + 1) / 2)
        mc_fail("C03", "bb/multiset", "produced sum %d, consumed %d items with sum %d, expected %d items", produced_sum, consumed_n, consumed_sum, total_items);
    teardown();
    mc_outcome("consumed=%d", consumed_n);
}

/* gate */
static int gate_open, passed;
static void *gate_waiter(void *arg)
{
    (void)arg;
    p_mutex_lock(m);
    while (!gate_open) wait_checked(cv_items);
    passed++;
    p_mutex_unlock(m);
    return NULL;
}
static void h_gate(int argc, char **argv)
{
    int w = argc > 0 ? atoi(argv[0]) : 2, i, tid[8];
    setup();
    for (i = 0; i < w; i++) tid[i] = mc_thread_create(gate_waiter, NULL);
    p_mutex_lock(m); gate_open = 1;
    if (!p_cond_variable_broadcast(cv_items)) mc_fail("C03", "broadcast-returned-false", "p_cond_variable_broadcast returned FALSE");
    p_mutex_unlock(m);
    for (i = 0; i < w; i++) mc_thread_join(tid[i]);
    if (passed != w) mc_fail("C03", "gate/not-all-passed", "%d of %d waiters passed the gate", passed, w);
    teardown();
    mc_outcome("passed=%d", passed);
}

/* unlocked: predicate set under the mutex, signal issued after unlocking; one signal per waiter */
static int tokens, served;
static void *tok_waiter(void *arg)
{
    (void)arg;
    p_mutex_lock(m);
    while (tokens == 0) wait_checked(cv_items);
    tokens--; served++;
    p_mutex_unlock(m);
    return NULL;
}
static void h_unlocked(int argc, char **argv)
{
    int w = argc > 0 ? atoi(argv[0]) : 2, i, tid[8], inside = argc > 1 && argv[1][0] == 'i';
    setup();
    for (i = 0; i < w; i++) tid[i] = mc_thread_create(tok_waiter, NULL);
    if (inside) {      /* all tokens and all signals inside one critical section */
        p_mutex_lock(m);
        for (i = 0; i < w; i++) { tokens++; p_cond_variable_signal(cv_items); }
        p_mutex_unlock(m);
    } else for (i = 0; i < w; i++) {
        p_mutex_lock(m); tokens++; p_mutex_unlock(m);
        p_cond_variable_signal(cv_items);
    }
    for (i = 0; i < w; i++) mc_thread_join(tid[i]);
    if (served != w) mc_fail("C03", "tokens/not-all-served", "%d of %d waiters were served", served, w);
    teardown();
    mc_outcome("served=%d", served);
}

/* held */
static int ready, in_section, try_result = -1, probe_done;
static void *held_waiter(void *arg)
{
    (void)arg;
    p_mutex_lock(m);
    while (!ready) wait_checked(cv_items);
    /* wait returned: this thread must own the mutex */
    if (!mc_is_free_running() && mc_mutex_owner(m) != mc_self()) mc_fail("C03", "held/mutex-not-owned-on-return", "p_cond_variable_wait returned but the mutex is owned by T%d, not by the waiter", mc_mutex_owner(m));
    in_section = 1; mc_step(); mc_step(); in_section = 0;
    p_mutex_unlock(m);
    return NULL;
}
static void *held_prober(void *arg)
{
    pboolean ok; (void)arg;
    ok = p_mutex_trylock(m);
    if (ok) { if (in_section) mc_fail("C03", "held/trylock-succeeded-in-section", "a third thread's p_mutex_trylock succeeded while the woken waiter is inside its critical section"); p_mutex_unlock(m); }
    return NULL;
}
static void h_held(int argc, char **argv)
{
    int a, b; (void)argc; (void)argv;
    setup();
    a = mc_thread_create(held_waiter, NULL); b = mc_thread_create(held_prober, NULL);
    p_mutex_lock(m); ready = 1; p_cond_variable_signal(cv_items); p_mutex_unlock(m);
    mc_thread_join(a); mc_thread_join(b);
    teardown();
    mc_outcome("ok");
}

/* trypub: while a consumer is parked in p_cond_variable_wait nobody holds the mutex, so a publisher that takes it with
 * p_mutex_trylock must get it after finitely many attempts (wait really released the mutex, for every way of looking at it) */
static int tp_ready, tp_done, tp_waiting;
static void *tp_consumer(void *arg) { (void)arg; p_mutex_lock(m); tp_waiting = 1; while (!tp_ready) wait_checked(cv_items); tp_done = 1; p_mutex_unlock(m); return NULL; }
static void h_trypub(int argc, char **argv)
{
    int t, published = 0; (void)argc; (void)argv;
    setup();
    t = mc_thread_create(tp_consumer, NULL);
    while (!published) {          /* the publisher only ever uses trylock; a trylock that can never succeed shows up as a livelock */
        if (p_mutex_trylock(m)) { if (tp_waiting) { tp_ready = 1; p_cond_variable_signal(cv_items); published = 1; } p_mutex_unlock(m); }
        if (!published) p_uthread_yield();
    }
    mc_thread_join(t);
    if (!tp_done) mc_fail("C03", "trypub/not-consumed", "consumer did not see the event");
    teardown();
    mc_outcome("ok");
}

static const McHarness HS[] = {
    {"bb", h_bb, "<producers> <consumers> <items>"}, {"gate", h_gate, "<waiters>"}, {"unlocked", h_unlocked, "<waiters> [i]"}, {"held", h_held, ""}, {"trypub", h_trypub, ""},
};
int main(int argc, char **argv) { return mc_main(argc, argv, HS, 5); }
