/* C04 thorough: p_atomic_int_{add,and,or,xor} with ALL 2^32 operands against 4 base words (single-threaded value semantics),
 * sharded.  usage: atomic_sweep <shard> <nshards> <stride>   (stride 1 = every operand) */
#include <plibsys.h>
#include "hout.h"
#include <stdint.h>
int main(int argc, char **argv)
{
    static const uint32_t BASE[4] = {0u, 0x7fffffffu, 0x80000001u, 0xaaaaaaaau};
    uint64_t shard = argc > 1 ? strtoull(argv[1], NULL, 10) : 0, ns = argc > 2 ? strtoull(argv[2], NULL, 10) : 1, stride = argc > 3 ? strtoull(argv[3], NULL, 10) : 1, v; long n = 0; int b;
    volatile pint w; volatile puint uw;
    hout_open(); p_libsys_init();
    for (v = shard * stride; v < ((uint64_t)1 << 32); v += ns * stride) for (b = 0; b < 4; b++) {
        uint32_t base = BASE[b], x = (uint32_t)v; pint r; puint ur;
        w = (pint)base; r = p_atomic_int_add(&w, (pint)x); if ((uint32_t)r != base || (uint32_t)w != base + x) { char d[160]; snprintf(d, sizeof d, "add(%#x, %#x) returned %#x stored %#x", base, x, (uint32_t)r, (uint32_t)w); hout_viol("C04", "sweep/int_add", "", "%s", d); return 1; }
        uw = base; ur = p_atomic_int_and(&uw, x); if (ur != base || uw != (base & x)) { hout_viol("C04", "sweep/int_and", "", "and(%#x, %#x) returned %#x stored %#x", base, x, ur, uw); return 1; }
        uw = base; ur = p_atomic_int_or(&uw, x); if (ur != base || uw != (base | x)) { hout_viol("C04", "sweep/int_or", "", "or(%#x, %#x) returned %#x stored %#x", base, x, ur, uw); return 1; }
        uw = base; ur = p_atomic_int_xor(&uw, x); if (ur != base || uw != (base ^ x)) { hout_viol("C04", "sweep/int_xor", "", "xor(%#x, %#x) returned %#x stored %#x", base, x, ur, uw); return 1; }
        n += 4;
    }
    hout_stat("sweep_operations", n);
    return 0;
}
