/* C19: EINTR injected at every k-th invocation (and every pair) of every blocking system call of a scenario.
 * The injected call fails with the call's real convention *without* being performed (clock_nanosleep returns the
 * code and leaves errno alone; the others return -1 / errno = EINTR).  Oracle: the API-visible outcome string equals
 * that of the run without injection; sleeping advances the virtual clock by at least the requested time.
 *
 * usage: eintr_fault all <pairs 0|1> | run <scenario> <k1> <k2>
 */
#define _GNU_SOURCE
#include <plibsys.h>
#include "hout.h"
#include "netns.h"
#include <errno.h>
#include <fcntl.h>
#include <poll.h>
#include <pthread.h>
#include <semaphore.h>
#include <stdarg.h>
#include <sys/mman.h>
#include <sys/socket.h>
#include <time.h>
#include <unistd.h>

extern void ipcnames_remember(const char *path);

/* ------------------------------------------------------------------ injection */
static __thread int counting;          /* only the thread under test is counted */
static long call_idx; static long inj[2] = {-1, -1}; static long injected;
static char last_call[32];
static int hit(const char *what)
{
    long i;
    if (!counting) return 0;
    i = call_idx++;
    if (i == inj[0] || i == inj[1]) { injected++; snprintf(last_call, sizeof last_call, "%s", what); return 1; }
    return 0;
}
static unsigned long virt_ns;          /* virtual clock for sleeps */
static unsigned long sleep_left_ns;    /* if non-zero: an interrupted sleep reports exactly this much time as remaining (interruption close to the end) */

int __real_clock_nanosleep(clockid_t, int, const struct timespec *, struct timespec *);
int __wrap_clock_nanosleep(clockid_t c, int flags, const struct timespec *req, struct timespec *rem)
{
    unsigned long ns = (unsigned long)req->tv_sec * 1000000000ul + (unsigned long)req->tv_nsec;
    (void)c; (void)flags;
    if (!counting) return __real_clock_nanosleep(c, flags, req, rem);
    if (req->tv_sec < 0 || req->tv_nsec < 0 || req->tv_nsec >= 1000000000L) return EINVAL;       /* as the kernel does */
    if (hit("clock_nanosleep")) {          /* interrupted after a third of the time: code returned, errno untouched */
        unsigned long slept = ns / 3 + (ns > 2000000 ? 123457 : 0), left = ns - slept;     /* the remaining time is not a whole number of milliseconds */
        if (sleep_left_ns && ns > sleep_left_ns) { left = sleep_left_ns; slept = ns - left; }
        virt_ns += slept;
        if (rem) { rem->tv_sec = (time_t)(left / 1000000000ul); rem->tv_nsec = (long)(left % 1000000000ul); }
        return EINTR;
    }
    virt_ns += ns;
    if (rem) { rem->tv_sec = 0; rem->tv_nsec = 0; }
    return 0;
}
int __real_nanosleep(const struct timespec *, struct timespec *);
int __wrap_nanosleep(const struct timespec *req, struct timespec *rem)
{
    unsigned long ns = (unsigned long)req->tv_sec * 1000000000ul + (unsigned long)req->tv_nsec;
    if (!counting) return __real_nanosleep(req, rem);
    if (req->tv_sec < 0 || req->tv_nsec < 0 || req->tv_nsec >= 1000000000L) { errno = EINVAL; return -1; }
    if (hit("nanosleep")) { unsigned long slept = ns / 3 + (ns > 2000000 ? 123457 : 0), left = ns - slept; if (sleep_left_ns && ns > sleep_left_ns) { left = sleep_left_ns; slept = ns - left; } virt_ns += slept; if (rem) { rem->tv_sec = (time_t)(left / 1000000000ul); rem->tv_nsec = (long)(left % 1000000000ul); } errno = EINTR; return -1; }
    virt_ns += ns;
    return 0;
}
/* select() with no descriptors is the sleep of builds that have neither clock_nanosleep nor nanosleep; Linux rewrites the time-out to the time not slept */
#include <sys/select.h>
int __real_select(int, fd_set *, fd_set *, fd_set *, struct timeval *);
int __wrap_select(int n, fd_set *r, fd_set *w, fd_set *x, struct timeval *tv)
{
    unsigned long ns;
    if (!counting || n != 0 || !tv) return __real_select(n, r, w, x, tv);
    if (tv->tv_sec < 0 || tv->tv_usec < 0 || tv->tv_usec >= 1000000L) { errno = EINVAL; return -1; }
    ns = (unsigned long)tv->tv_sec * 1000000000ul + (unsigned long)tv->tv_usec * 1000ul;
    if (hit("select")) {
        unsigned long slept = ns / 3000 * 1000 + (ns > 2000000 ? 123000 : 0), left = ns - slept;      /* whole microseconds: the time-out has no finer unit */
        if (sleep_left_ns && ns > sleep_left_ns) { left = sleep_left_ns; slept = ns - left; }
        virt_ns += slept; tv->tv_sec = (time_t)(left / 1000000000ul); tv->tv_usec = (suseconds_t)(left % 1000000000ul / 1000ul);
        errno = EINTR; return -1;
    }
    virt_ns += ns; tv->tv_sec = 0; tv->tv_usec = 0;
    return 0;
}
/* the select-based sleep measures elapsed time with gettimeofday: it follows the virtual clock of the thread under test */
#include <sys/time.h>
int __real_gettimeofday(struct timeval *, void *);
int __wrap_gettimeofday(struct timeval *tv, void *tz)
{
    int r = __real_gettimeofday(tv, tz);
    if (counting && r == 0 && tv) { unsigned long us = (unsigned long)tv->tv_usec + virt_ns / 1000ul; tv->tv_sec += (time_t)(us / 1000000ul); tv->tv_usec = (suseconds_t)(us % 1000000ul); }
    return r;
}
#define EINTR_WRAP(ret, name, proto, args) ret __real_##name proto; ret __wrap_##name proto { if (hit(#name)) { errno = EINTR; return -1; } return __real_##name args; }
EINTR_WRAP(int, sem_wait, (sem_t *s), (s))
EINTR_WRAP(int, poll, (struct pollfd *f, nfds_t n, int t), (f, n, t))
EINTR_WRAP(int, connect, (int fd, const struct sockaddr *a, socklen_t l), (fd, a, l))
EINTR_WRAP(int, accept, (int fd, struct sockaddr *a, socklen_t *l), (fd, a, l))
EINTR_WRAP(ssize_t, recv, (int fd, void *b, size_t n, int fl), (fd, b, n, fl))
EINTR_WRAP(ssize_t, recvfrom, (int fd, void *b, size_t n, int fl, struct sockaddr *a, socklen_t *l), (fd, b, n, fl, a, l))
EINTR_WRAP(ssize_t, send, (int fd, const void *b, size_t n, int fl), (fd, b, n, fl))
EINTR_WRAP(ssize_t, sendto, (int fd, const void *b, size_t n, int fl, const struct sockaddr *a, socklen_t l), (fd, b, n, fl, a, l))
int __real_shm_open(const char *, int, mode_t);
int __wrap_shm_open(const char *name, int oflag, mode_t mode)
{
    if (oflag & O_CREAT) { char p[80]; snprintf(p, sizeof p, "/dev/shm/%s", name[0] == '/' ? name + 1 : name); ipcnames_remember(p); }
    if (hit("shm_open")) { errno = EINTR; return -1; }
    return __real_shm_open(name, oflag, mode);
}
sem_t *__real_sem_open(const char *, int, ...);
sem_t *__wrap_sem_open(const char *name, int oflag, ...)
{
    mode_t mode = 0; unsigned value = 0;
    if (oflag & O_CREAT) { va_list ap; char p[80]; va_start(ap, oflag); mode = va_arg(ap, mode_t); value = va_arg(ap, unsigned); va_end(ap); snprintf(p, sizeof p, "/dev/shm/sem.%s", name[0] == '/' ? name + 1 : name); ipcnames_remember(p); }
    if (hit("sem_open")) { errno = EINTR; return SEM_FAILED; }
    return (oflag & O_CREAT) ? __real_sem_open(name, oflag, mode, value) : __real_sem_open(name, oflag);
}

/* ------------------------------------------------------------------ scenarios: each writes its API-visible outcome into out */
static char nm[64];
/* an interrupted-call error: native code EINTR on an error that is not the (genuine) time-out, whose native code is whatever errno happened to hold */
static int err_is_eintr(PError *e) { return e && p_error_get_native_code(e) == EINTR && p_error_get_code(e) != (pint)P_ERROR_IO_TIMED_OUT; }
#define OUT(...) do { o += snprintf(out + o, 900 - o, __VA_ARGS__); } while (0)

static void sc_sleep(char *out)
{
    size_t o = 0; unsigned long v0 = virt_ns; pint rc = p_uthread_sleep(30);
    OUT("sleep rc=%d elapsed>=30ms:%d", rc, virt_ns - v0 >= 30000000ul);
}
static void sc_sleep_late(char *out)      /* the interruption arrives 0.4 ms before the end of the sleep */
{
    size_t o = 0; unsigned long v0 = virt_ns; pint rc;
    sleep_left_ns = 400000; rc = p_uthread_sleep(30); sleep_left_ns = 0;
    OUT("sleep rc=%d elapsed>=30ms:%d", rc, virt_ns - v0 >= 30000000ul);
}
static void sc_sem_avail(char *out)
{
    size_t o = 0; PError *e = NULL; PSemaphore *s = p_semaphore_new(nm, 1, P_SEM_ACCESS_CREATE, &e); pboolean a, r;
    OUT("new=%d ", s != NULL); if (err_is_eintr(e)) OUT("EINTR-ERROR ");
    if (!s) return;
    a = p_semaphore_acquire(s, &e); r = p_semaphore_release(s, &e);
    OUT("acquire=%d release=%d", a, r); if (err_is_eintr(e)) OUT(" EINTR-ERROR");
    p_semaphore_take_ownership(s); p_semaphore_free(s);
}
static PSemaphore *later_sem;
static void *poster(void *a) { struct timespec ts = {0, 30000000}; (void)a; __real_nanosleep(&ts, NULL); p_semaphore_release(later_sem, NULL); return NULL; }
static void sc_sem_later(char *out)
{
    size_t o = 0; PError *e = NULL; pthread_t th; pboolean a;
    later_sem = p_semaphore_new(nm, 0, P_SEM_ACCESS_CREATE, NULL);
    if (!later_sem) { OUT("new=0"); return; }
    pthread_create(&th, NULL, poster, NULL);
    a = p_semaphore_acquire(later_sem, &e);
    pthread_join(th, NULL);
    OUT("acquire-after-wait=%d", a); if (err_is_eintr(e)) OUT(" EINTR-ERROR");
    p_semaphore_take_ownership(later_sem); p_semaphore_free(later_sem);
}
extern pchar *p_ipc_get_platform_key(const pchar *name, pboolean posix);
#include <sys/stat.h>
/* inode of the segment object (which = 0) / of its lock semaphore (1) for user name n; 0 if the name does not exist */
static unsigned long shm_obj_ino(const char *n, int which)
{
    char b[200], path[128]; pchar *k, *k2; struct stat st;
    snprintf(b, sizeof b, "%s_p_shm_object", n); k = p_ipc_get_platform_key(b, TRUE);
    if (which) { snprintf(b, sizeof b, "%s_p_sem_object", k); k2 = p_ipc_get_platform_key(b, TRUE); snprintf(path, sizeof path, "/dev/shm/sem.%s", k2 + 1); p_free(k2); }
    else snprintf(path, sizeof path, "/dev/shm/%s", k + 1);
    p_free(k);
    return stat(path, &st) == 0 ? (unsigned long)st.st_ino : 0ul;
}
static void sc_shm(char *out)
{
    size_t o = 0; PError *e = NULL; PShm *m = p_shm_new(nm, 256, P_SHM_ACCESS_READWRITE, &e), *m2; pboolean l, u; unsigned long i0, i1;
    OUT("new=%d ", m != NULL); if (err_is_eintr(e)) OUT("EINTR-ERROR ");
    if (!m) return;
    i0 = shm_obj_ino(nm, 0); i1 = shm_obj_ino(nm, 1);
    m2 = p_shm_new(nm, 256, P_SHM_ACCESS_READWRITE, &e);
    OUT("open-existing=%d size=%lu ", m2 != NULL, m2 ? (unsigned long)p_shm_get_size(m2) : 0ul);
    /* opening an existing segment must attach to the same kernel objects (an opener that replaces the lock semaphore breaks the lock between the two handles) */
    OUT("same-segment=%d same-lock=%d ", i0 && shm_obj_ino(nm, 0) == i0, i1 && shm_obj_ino(nm, 1) == i1);
    l = p_shm_lock(m, &e); ((char *)p_shm_get_address(m))[3] = 9; u = p_shm_unlock(m, &e);
    OUT("lock=%d unlock=%d byte=%d", l, u, m2 ? ((char *)p_shm_get_address(m2))[3] : -1); if (err_is_eintr(e)) OUT(" EINTR-ERROR");
    if (m2) p_shm_free(m2);
    OUT(" names-after-opener-free=%d%d", shm_obj_ino(nm, 0) == i0, shm_obj_ino(nm, 1) == i1);      /* the handle that only opened the segment does not remove it */
    p_shm_take_ownership(m); p_shm_free(m);
    OUT(" names-after-owner-free=%d%d", shm_obj_ino(nm, 0) != 0, shm_obj_ino(nm, 1) != 0);
}
static void sc_ipc_open(char *out)
{
    size_t o = 0; PError *e = NULL; PSemaphore *a = p_semaphore_new(nm, 2, P_SEM_ACCESS_OPEN, &e), *b, *c;
    OUT("open-absent=%d ", a != NULL);
    b = p_semaphore_new(nm, 1, P_SEM_ACCESS_OPEN, &e); OUT("open-present=%d ", b != NULL);
    c = p_semaphore_new(nm, 1, P_SEM_ACCESS_CREATE, &e); OUT("create-present=%d", c != NULL);
    if (err_is_eintr(e)) OUT(" EINTR-ERROR");
    if (b) p_semaphore_free(b); if (a) p_semaphore_free(a); if (c) { p_semaphore_take_ownership(c); p_semaphore_free(c); }
}
static void sc_tcp(char *out)
{
    size_t o = 0; PError *e = NULL; char buf[16]; pssize n;
    PSocketAddress *lo = p_socket_address_new("127.0.0.1", 0), *la = NULL;
    PSocket *srv = p_socket_new(P_SOCKET_FAMILY_INET, P_SOCKET_TYPE_STREAM, P_SOCKET_PROTOCOL_TCP, NULL), *cli = p_socket_new(P_SOCKET_FAMILY_INET, P_SOCKET_TYPE_STREAM, P_SOCKET_PROTOCOL_TCP, NULL), *acc = NULL;
    p_socket_set_timeout(srv, 3000); p_socket_set_timeout(cli, 3000);
    if (!p_socket_bind(srv, lo, TRUE, NULL) || !p_socket_listen(srv, NULL)) { OUT("setup-failed"); goto done; }
    la = p_socket_get_local_address(srv, NULL);
    OUT("connect=%d ", p_socket_connect(cli, la, &e)); if (err_is_eintr(e)) OUT("EINTR-ERROR ");
    acc = p_socket_accept(srv, &e); OUT("accept=%d ", acc != NULL); if (err_is_eintr(e)) OUT("EINTR-ERROR ");
    {   /* asking for the connection again on the connected socket (three times: the first repetition still reports success on Linux) fails at the latest the third time and leaves it connected */
        PError *e2 = NULL; int k, last = 1; for (k = 0; k < 3; k++) { if (e2) { p_error_free(e2); e2 = NULL; } last = p_socket_connect(cli, la, &e2); }
        OUT("reconnect-last=%d still-connected=%d ", last, (int)p_socket_is_connected(cli)); if (err_is_eintr(e2)) OUT("EINTR-ERROR "); if (e2) p_error_free(e2);
    }
    if (acc) {
        p_socket_set_timeout(acc, 3000);
        n = p_socket_send(cli, "hello", 5, &e); OUT("send=%ld ", (long)n);
        OUT("wait=%d ", p_socket_io_condition_wait(acc, P_SOCKET_IO_CONDITION_POLLIN, &e));
        memset(buf, 0, sizeof buf); n = p_socket_receive(acc, buf, sizeof buf - 1, &e); OUT("recv=%ld[%s] ", (long)n, buf);
        n = p_socket_send(acc, "yo", 2, &e); memset(buf, 0, sizeof buf); n = p_socket_receive(cli, buf, sizeof buf - 1, &e); OUT("back=%ld[%s] ", (long)n, buf);
        p_socket_set_timeout(cli, 40);         /* nothing to read: must time out, not fail with an interrupted-call error */
        n = p_socket_receive(cli, buf, 4, &e); OUT("idle-recv=%ld err=%d", (long)n, e ? p_error_get_code(e) : 0);
    }
    if (err_is_eintr(e)) OUT(" EINTR-ERROR");
done:
    p_socket_free(acc); p_socket_free(cli); p_socket_free(srv); p_socket_address_free(lo); p_socket_address_free(la); if (e) p_error_free(e);
}
static void sc_udp(char *out)
{
    size_t o = 0; PError *e = NULL; char buf[16]; pssize n; PSocketAddress *lo = p_socket_address_new("127.0.0.1", 0), *ua = NULL, *from = NULL;
    PSocket *u = p_socket_new(P_SOCKET_FAMILY_INET, P_SOCKET_TYPE_DATAGRAM, P_SOCKET_PROTOCOL_UDP, NULL);
    p_socket_set_timeout(u, 3000);
    if (!p_socket_bind(u, lo, TRUE, NULL)) { OUT("setup-failed"); goto done; }
    ua = p_socket_get_local_address(u, NULL);
    /* nothing has arrived yet: a wait for input with a time-out must report the time-out, whatever interrupts it */
    p_socket_set_timeout(u, 40);
    OUT("idle-wait=%d err=%d ", p_socket_io_condition_wait(u, P_SOCKET_IO_CONDITION_POLLIN, &e), e ? p_error_get_code(e) : 0); if (err_is_eintr(e)) OUT("EINTR-ERROR "); if (e) { p_error_free(e); e = NULL; }
    p_socket_set_timeout(u, 3000);
    n = p_socket_send_to(u, ua, "dgram", 5, &e); OUT("send_to=%ld ", (long)n);
    memset(buf, 0, sizeof buf); n = p_socket_receive_from(u, &from, buf, sizeof buf - 1, &e); OUT("receive_from=%ld[%s] from-port-ok=%d", (long)n, buf, from && ua && p_socket_address_get_port(from) == p_socket_address_get_port(ua));
    if (err_is_eintr(e)) OUT(" EINTR-ERROR");
done:
    p_socket_free(u); p_socket_address_free(lo); p_socket_address_free(ua); p_socket_address_free(from); if (e) p_error_free(e);
}

/* name, scenario, the outcome of the run without any injection (what the documented behaviour gives on this platform; the injected runs are compared with the
 * run without injection, and that run is compared with this) */
static const struct { const char *name; void (*fn)(char *); const char *expect; } SC[] = {
    {"sleep", sc_sleep, "sleep rc=0 elapsed>=30ms:1"}, {"sleep-interrupted-near-the-end", sc_sleep_late, "sleep rc=0 elapsed>=30ms:1"},
    {"sem-available", sc_sem_avail, "new=1 acquire=1 release=1"}, {"sem-unit-arrives-later", sc_sem_later, "acquire-after-wait=1"},
    {"shm-lock", sc_shm, "new=1 open-existing=1 size=256 same-segment=1 same-lock=1 lock=1 unlock=1 byte=9 names-after-opener-free=11 names-after-owner-free=00"},
    {"ipc-open-create", sc_ipc_open, "open-absent=1 open-present=1 create-present=1"},
    {"tcp", sc_tcp, "connect=1 accept=1 reconnect-last=0 still-connected=1 send=5 wait=1 recv=5[hello] back=2[yo] idle-recv=-1 err=509"},
    {"udp", sc_udp, "idle-wait=0 err=0 send_to=5 receive_from=5[dgram] from-port-ok=1"},
};
#define NSC ((int)(sizeof SC / sizeof SC[0]))

static long run_one(int s, long k1, long k2, char *out)
{
    long n;
    inj[0] = k1; inj[1] = k2; call_idx = 0; injected = 0; out[0] = 0; last_call[0] = 0;
    snprintf(nm, sizeof nm, "vf19_%d_%d_%ld_%ld", (int)getpid(), s, k1 + 1, k2 + 1);
    counting = 1; SC[s].fn(out); counting = 0;
    n = call_idx;
    return n;
}

#include <signal.h>
static int cur_s; static long cur_k1, cur_k2;
static void on_alarm(int sig)
{
    char sg[128], rp[160]; (void)sig;
    snprintf(sg, sizeof sg, "%s/hang/%s", SC[cur_s].name, last_call[0] ? last_call : "?");
    snprintf(rp, sizeof rp, "eintr_fault run %s %ld %ld", SC[cur_s].name, cur_k1, cur_k2);
    hout_viol("C19", sg, rp, "scenario %s: with EINTR injected at blocking call #%ld (%s) the call never returns (10 s watchdog): it blocks or spins forever", SC[cur_s].name, cur_k1, last_call);
    _exit(1);
}

int main(int argc, char **argv)
{
    int s, pairs; long total = 0, nontriv = 0; char base[1024], got[1024];
    if (argc < 2) return 2;
verif_private_netns();     hout_open(); p_libsys_init();
    if (!strcmp(argv[1], "run") && argc >= 5) {
        for (s = 0; s < NSC; s++) if (!strcmp(SC[s].name, argv[2])) {
            run_one(s, -1, -1, base); run_one(s, atol(argv[3]), atol(argv[4]), got);
            printf("without injection: %s\nwith EINTR at call(s) %s,%s (last injected: %s): %s\n", base, argv[3], argv[4], last_call, got);
            return strcmp(base, got) ? 1 : 0;
        }
        return 2;
    }
    pairs = argc > 2 ? atoi(argv[2]) : 0;
    for (s = 0; s < NSC; s++) {
        long n, k1, k2;
        if (argc > 3 && strncmp(SC[s].name, argv[3], strlen(argv[3]))) continue;        /* optional scenario-name prefix */
        n = run_one(s, -1, -1, base);
        hout_note("scenario %s: %ld blocking system call invocations; outcome: %s", SC[s].name, n, base);
        if (strcmp(base, SC[s].expect)) { char sg[96]; snprintf(sg, sizeof sg, "%s/fault-free-outcome", SC[s].name); hout_viol("C19", sg, "", "scenario %s without any injection: outcome \"%s\", expected \"%s\"", SC[s].name, base, SC[s].expect); }
        if (strstr(base, "EINTR-ERROR") || strstr(base, "setup-failed")) { char sg[96]; snprintf(sg, sizeof sg, "%s/fault-free-run-bad", SC[s].name); hout_viol("C19", sg, "", "scenario %s without injection gives: %s", SC[s].name, base); continue; }
        for (k1 = 0; k1 < n + 2; k1++) for (k2 = -1; k2 < (pairs ? n + 3 : 0); k2++) {
            char sg[128], rp[160];
            if (k2 >= 0 && k2 <= k1) continue;
            hout_progress("sig=%s/crash eintr_fault run %s %ld %ld", SC[s].name, SC[s].name, k1, k2);
            cur_s = s; cur_k1 = k1; cur_k2 = k2; signal(SIGALRM, on_alarm); alarm(10);
            run_one(s, k1, k2, got); total++;
            alarm(0);
            if (!injected) continue;
            nontriv++;
            if (strcmp(base, got)) {
                snprintf(sg, sizeof sg, "%s/outcome-changed/%s", SC[s].name, last_call);
                snprintf(rp, sizeof rp, "eintr_fault run %s %ld %ld", SC[s].name, k1, k2);
                hout_viol("C19", sg, rp, "scenario %s: EINTR injected at blocking call #%ld%s (%s) changes the outcome\n  without: %s\n  with:    %s", SC[s].name, k1, k2 >= 0 ? " and a later one" : "", last_call, base, got);
            }
        }
    }
    hout_stat("evaluations", total); hout_stat("nontrivial", nontriv); hout_stat("scenarios", NSC);
    hout_sample("scenario tcp: EINTR at blocking call #k for every k (poll, connect, accept, send, recv in the order the library issues them)");
    return hout_nviol ? 1 : 0;
}
