/* C11: bounded-exhaustive enumeration of update chunkings / call sequences of PCryptoHash against an independent
 * implementation of the standards (GNU nettle: md5, sha1, sha2, sha3, gosthash94cp).
 *
 * usage: hash_enum small <algo 0..10>          splits + sequences (quick)
 *        hash_enum big <algo> <b> <r> <mode> [<lg> [<chunklg>]]   single update of 2^lg+r bytes (lg defaults to 32) arriving with b bytes buffered (mode 0),
 *                                              or the same bytes streamed in 1 MiB chunks (mode 1)
 *        hash_enum replay <algo> <spec>        spec = split:l1.l2[.l3] | seq:<ops>
 */
#define _GNU_SOURCE
#include <plibsys.h>
#include "hout.h"
#include <nettle/md5.h>
#include <nettle/sha1.h>
#include <nettle/sha2.h>
#include <nettle/sha3.h>
#include <nettle/gosthash94.h>
#include <stdint.h>
#include <sys/mman.h>
#include <unistd.h>

static const struct { const char *name; PCryptoHashType type; int block; int dlen; } ALG[] = {
    {"md5", P_CRYPTO_HASH_TYPE_MD5, 64, 16}, {"sha1", P_CRYPTO_HASH_TYPE_SHA1, 64, 20},
    {"sha2-224", P_CRYPTO_HASH_TYPE_SHA2_224, 64, 28}, {"sha2-256", P_CRYPTO_HASH_TYPE_SHA2_256, 64, 32},
    {"sha2-384", P_CRYPTO_HASH_TYPE_SHA2_384, 128, 48}, {"sha2-512", P_CRYPTO_HASH_TYPE_SHA2_512, 128, 64},
    {"sha3-224", P_CRYPTO_HASH_TYPE_SHA3_224, 144, 28}, {"sha3-256", P_CRYPTO_HASH_TYPE_SHA3_256, 136, 32},
    {"sha3-384", P_CRYPTO_HASH_TYPE_SHA3_384, 104, 48}, {"sha3-512", P_CRYPTO_HASH_TYPE_SHA3_512, 72, 64},
    {"gost94cp", P_CRYPTO_HASH_TYPE_GOST, 32, 32},
};
static int A;

/* ---------- reference (nettle), streaming ---------- */
typedef union { struct md5_ctx md5; struct sha1_ctx sha1; struct sha224_ctx s224; struct sha256_ctx s256; struct sha384_ctx s384; struct sha512_ctx s512;
                struct sha3_224_ctx t224; struct sha3_256_ctx t256; struct sha3_384_ctx t384; struct sha3_512_ctx t512; struct gosthash94cp_ctx g; } RefCtx;
static void ref_init(RefCtx *c)
{
    switch (A) { case 0: md5_init(&c->md5); break; case 1: sha1_init(&c->sha1); break; case 2: sha224_init(&c->s224); break; case 3: sha256_init(&c->s256); break;
    case 4: sha384_init(&c->s384); break; case 5: sha512_init(&c->s512); break; case 6: sha3_224_init(&c->t224); break; case 7: sha3_256_init(&c->t256); break;
    case 8: sha3_384_init(&c->t384); break; case 9: sha3_512_init(&c->t512); break; case 10: gosthash94cp_init(&c->g); break; }
}
static void ref_update(RefCtx *c, const unsigned char *d, size_t n)
{
    switch (A) { case 0: md5_update(&c->md5, n, d); break; case 1: sha1_update(&c->sha1, n, d); break; case 2: sha224_update(&c->s224, n, d); break; case 3: sha256_update(&c->s256, n, d); break;
    case 4: sha384_update(&c->s384, n, d); break; case 5: sha512_update(&c->s512, n, d); break; case 6: sha3_224_update(&c->t224, n, d); break; case 7: sha3_256_update(&c->t256, n, d); break;
    case 8: sha3_384_update(&c->t384, n, d); break; case 9: sha3_512_update(&c->t512, n, d); break; case 10: gosthash94cp_update(&c->g, n, d); break; }
}
static void ref_digest(RefCtx *c, unsigned char *out)
{
    int n = ALG[A].dlen;
    switch (A) { case 0: md5_digest(&c->md5, n, out); break; case 1: sha1_digest(&c->sha1, n, out); break; case 2: sha224_digest(&c->s224, n, out); break; case 3: sha256_digest(&c->s256, n, out); break;
    case 4: sha384_digest(&c->s384, n, out); break; case 5: sha512_digest(&c->s512, n, out); break; case 6: sha3_224_digest(&c->t224, n, out); break; case 7: sha3_256_digest(&c->t256, n, out); break;
    case 8: sha3_384_digest(&c->t384, n, out); break; case 9: sha3_512_digest(&c->t512, n, out); break; case 10: gosthash94cp_digest(&c->g, n, out); break; }
}
static void ref_oneshot(const unsigned char *d, size_t n, unsigned char *out) { RefCtx c; ref_init(&c); ref_update(&c, d, n); ref_digest(&c, out); }

/* content classes: 0 position-coded (misplaced or duplicated copies change the digest); 1 all 0xFF, 2 all 0x00, 3 0xFF except every 4th byte 0xFE
 * (long carry chains in the additive parts: GOST control sum, length counters) */
static int CC; static const char *CCN[] = {"position-coded", "all-ff", "all-00", "ff-fe"};
static unsigned char pat(size_t i)
{
    switch (CC) { case 1: return 0xFF; case 2: return 0; case 3: return (i & 3) == 0 ? 0xFE : 0xFF; }
    return (unsigned char)((i * 131u + (i >> 8) * 7u + 13u) & 0xff);
}
static void hex(const unsigned char *d, int n, char *out) { static const char H[] = "0123456789abcdef"; int i; for (i = 0; i < n; i++) { out[2 * i] = H[d[i] >> 4]; out[2 * i + 1] = H[d[i] & 15]; } out[2 * n] = 0; }

static char cur[256]; static int replay_mode;
static struct { char sig[128]; long n; } sigs[64]; static int nsigs;
static void viol(const char *sig, const char *fmt, ...)
{
    char buf[1500], full[160], rp[400]; va_list ap; int i;
    va_start(ap, fmt); vsnprintf(buf, sizeof buf, fmt, ap); va_end(ap);
    snprintf(full, sizeof full, "%s/%s", ALG[A].name, sig);
    if (replay_mode) printf("  !! %s: %s\n", full, buf);
    for (i = 0; i < nsigs; i++) if (!strcmp(sigs[i].sig, full)) { sigs[i].n++; return; }
    if (nsigs < 64) { strcpy(sigs[nsigs].sig, full); sigs[nsigs].n = 1; nsigs++; }
    if (CC) { size_t l = strlen(full); snprintf(full + l, sizeof full - l, "/content-%s", CCN[CC]); }
    snprintf(rp, sizeof rp, "hash_enum replay %d %s %d", A, cur, CC);
    hout_viol("C11", full, rp, "%s [%s]: %s", ALG[A].name, cur, buf);
}

/* digest of the library for a message given as up to 3 chunks */
static void lib_chunks(const unsigned char *m, const size_t *l, int nl, unsigned char *out, char *str)
{
    PCryptoHash *h = p_crypto_hash_new(ALG[A].type); psize len = ALG[A].dlen; size_t off = 0; int i; pchar *s;
    if (!h) { viol("new-failed", "p_crypto_hash_new returned NULL for a supported algorithm"); exit(1); }
    if (p_crypto_hash_get_type(h) != ALG[A].type) viol("getter/type", "p_crypto_hash_get_type does not report the algorithm the object was created with");
    if (p_crypto_hash_get_length(h) != (pssize)ALG[A].dlen) viol("getter/length", "p_crypto_hash_get_length reports %ld, the digest of this algorithm has %d bytes", (long)p_crypto_hash_get_length(h), (int)ALG[A].dlen);
    for (i = 0; i < nl; i++) { p_crypto_hash_update(h, m + off, l[i]); off += l[i]; }
    s = p_crypto_hash_get_string(h);
    if (s) { strncpy(str, s, 129); p_free(s); } else str[0] = 0;
    p_crypto_hash_get_digest(h, out, &len);
    if ((int)len != ALG[A].dlen) memset(out, 0, ALG[A].dlen);
    p_crypto_hash_free(h);
}

static long n_splits, n_pairs, n_seq, n_reads;

static void check_split(const unsigned char *msg, const size_t *l, int nl, const unsigned char *ref)
{
    unsigned char d[64]; char s[132], rh[132], sig[64];
    size_t o = 0; int i;
    o = snprintf(cur, sizeof cur, "split:"); for (i = 0; i < nl; i++) o += snprintf(cur + o, sizeof cur - o, "%s%zu", i ? "." : "", l[i]);
    hout_progress("sig=%s/split hash_enum replay %d %s", ALG[A].name, A, cur);
    lib_chunks(msg, l, nl, d, s);
    n_splits++;
    hex(ref, ALG[A].dlen, rh);
    if (memcmp(d, ref, ALG[A].dlen)) {
        size_t tot = 0; for (i = 0; i < nl; i++) tot += l[i];
        snprintf(sig, sizeof sig, "digest-mismatch/%s", nl == 1 ? "one-shot" : "chunked");
        viol(sig, "message of %zu bytes fed as %s: digest differs from the standard digest %s (library string %s)", tot, cur + 6, rh, s);
    } else if (strcmp(s, rh)) viol("hex-string", "get_string returned \"%s\", lower-case hex of the raw digest is \"%s\"", s, rh);
}

/* ---------- (iii) call sequences ---------- */
static const char SEQ_OPS[] = "0123RSDd";          /* 0..3: update with length {0,1,B-1,B}; R reset; S get_string; D get_digest; d get_digest short buffer */
static void run_seq(const char *ops)
{
    PCryptoHash *h = p_crypto_hash_new(ALG[A].type); static unsigned char msg[1024]; size_t mlen = 0; int closed = 0, i, B = ALG[A].block;
    unsigned char expect[64]; char eh[132];
    size_t ulen[4]; ulen[0] = 0; ulen[1] = 1; ulen[2] = B - 1; ulen[3] = B;
    snprintf(cur, sizeof cur, "seq:%s", ops);
    hout_progress("sig=%s/seq hash_enum replay %d %s", ALG[A].name, A, cur);
    n_seq++;
    for (i = 0; ops[i]; i++) {
        char c = ops[i];
        if (c >= '0' && c <= '3') {
            size_t n = ulen[c - '0'], k; unsigned char *chunk = malloc(n ? n : 1);
            for (k = 0; k < n; k++) chunk[k] = pat(mlen + k + (closed ? 7777 : 0));
            p_crypto_hash_update(h, chunk, n);
            if (!closed) { memcpy(msg + mlen, chunk, n); mlen += n; }      /* updates after a read are ignored until reset */
            free(chunk);
        } else if (c == 'R') { p_crypto_hash_reset(h); mlen = 0; closed = 0; }
        else {
            ref_oneshot(msg, mlen, expect); hex(expect, ALG[A].dlen, eh);
            n_reads++;
            if (c == 'S') {
                pchar *s = p_crypto_hash_get_string(h);
                if (!s) viol("seq/get_string-null", "get_string returned NULL at step %d", i + 1);
                else { if (strcmp(s, eh)) viol(closed ? "seq/read-not-repeatable-or-update-not-ignored" : "seq/digest-mismatch", "step %d get_string = %s, expected %s (message of %zu bytes since creation/reset%s)", i + 1, s, eh, mlen, closed ? ", digest had already been read" : ""); p_free(s); }
                closed = 1;
            } else if (c == 'D') {
                unsigned char *buf = malloc(ALG[A].dlen); psize len = ALG[A].dlen;
                p_crypto_hash_get_digest(h, buf, &len);
                if ((int)len != ALG[A].dlen) viol("seq/get_digest-length", "get_digest with an exact-size buffer returned length %lu", (unsigned long)len);
                else if (memcmp(buf, expect, ALG[A].dlen)) { char gh[132]; hex(buf, ALG[A].dlen, gh); viol(closed ? "seq/read-not-repeatable-or-update-not-ignored" : "seq/digest-mismatch", "step %d get_digest = %s, expected %s (message of %zu bytes%s)", i + 1, gh, eh, mlen, closed ? ", digest had already been read" : ""); }
                free(buf); closed = 1;
            } else {
                int n = ALG[A].dlen - 1, k; unsigned char *buf = malloc(n); psize len = n;
                memset(buf, 0xC5, n);
                p_crypto_hash_get_digest(h, buf, &len);
                if (len != 0) viol("seq/short-buffer-length", "get_digest with a buffer one byte too small reported length %lu (must be 0)", (unsigned long)len);
                for (k = 0; k < n; k++) if (buf[k] != 0xC5) { viol("seq/short-buffer-written", "get_digest wrote into a buffer that is too small"); break; }
                free(buf);
                /* a refused read does not read the digest: the object stays open (as implemented; not judged further) */
            }
        }
    }
    p_crypto_hash_free(h);
}
static void enum_seq(char *buf, int depth, int maxdepth)
{
    int i;
    if (depth > 0) { buf[depth] = 0; if (strpbrk(buf, "SDd")) run_seq(buf); }
    if (depth == maxdepth) return;
    for (i = 0; SEQ_OPS[i]; i++) { buf[depth] = SEQ_OPS[i]; enum_seq(buf, depth + 1, maxdepth); }
}

static int do_small(int seqdepth)
{
    int B = ALG[A].block, n, l1, l2; size_t maxn = 5 * (size_t)B + 2, i; unsigned char *msg = malloc(maxn + 1), ref[64]; size_t l[3]; char sb[16];
    static unsigned char seen[160][300];
    for (CC = 3; CC >= 0; CC--) {
    for (i = 0; i < maxn; i++) msg[i] = pat(i);
    /* one-shot for every length up to 5B+1 (the lengths reachable by the sequences) */
    for (n = 0; n <= 5 * B + 1; n++) { ref_oneshot(msg, n, ref); l[0] = n; check_split(msg, l, 1, ref); }
    /* (i) all two-way splits of every length up to 2B+1: every (bytes buffered, chunk length) pair */
    for (n = 0; n <= 2 * B + 1; n++) {
        ref_oneshot(msg, n, ref);
        for (l1 = 0; l1 <= n; l1++) { l[0] = l1; l[1] = n - l1; check_split(msg, l, 2, ref); if (l1 % B < 160 && n - l1 < 300 && !seen[l1 % B][n - l1]) { seen[l1 % B][n - l1] = 1; n_pairs++; } }
    }
    }
    CC = 0;
    /* (ii) all three-way splits around the block boundaries */
    { int ns[4]; int k; ns[0] = B - 1; ns[1] = B; ns[2] = B + 1; ns[3] = 2 * B;
      for (k = 0; k < 4; k++) { n = ns[k]; ref_oneshot(msg, n, ref); for (l1 = 0; l1 <= n; l1++) for (l2 = 0; l1 + l2 <= n; l2++) { l[0] = l1; l[1] = l2; l[2] = n - l1 - l2; check_split(msg, l, 3, ref); } } }
    /* (iii) all call sequences up to the depth */
    enum_seq(sb, 0, seqdepth);
    hout_stat("evaluations", n_splits + n_seq); hout_stat("split_digests", n_splits); hout_stat("call_sequences", n_seq); hout_stat("digest_reads_in_sequences", n_reads);
    hout_stat("distinct_buffered_chunk_pairs", n_pairs); hout_stat("nontrivial", n_pairs);
    hout_sample("%s: message of %d bytes as update(%d),update(%d); sequence \"3S1SRD\" = update(B) get_string update(1) get_string reset get_digest", ALG[A].name, 2 * B + 1, B - 1, B + 2);
    for (n = 0; n < nsigs; n++) hout_note("signature %s occurred %ld time(s)", sigs[n].sig, sigs[n].n);
    return hout_nviol ? 1 : 0;
}

/* ---------- (iv) >= 2^32 ---------- */
#define TILE (2u << 20)
static unsigned char *virtual_buffer(size_t total)
{
    int fd = memfd_create("vf_hash_tile", 0); unsigned char *tile, *base; size_t off, i;
    if (fd < 0 || ftruncate(fd, TILE) < 0) { perror("memfd"); exit(2); }
    tile = mmap(NULL, TILE, PROT_READ | PROT_WRITE, MAP_SHARED, fd, 0);
    for (i = 0; i < TILE; i++) tile[i] = pat(i);
    total = (total + TILE - 1) / TILE * TILE;
    base = mmap(NULL, total, PROT_NONE, MAP_PRIVATE | MAP_ANONYMOUS | MAP_NORESERVE, -1, 0);
    if (base == MAP_FAILED) { perror("reserve"); exit(2); }
    for (off = 0; off < total; off += TILE) if (mmap(base + off, TILE, PROT_READ, MAP_SHARED | MAP_FIXED, fd, 0) == MAP_FAILED) { perror("tile"); exit(2); }
    return base;
}
static int BIG_LG = 32, CHUNK_LG = 20;
static int do_big(size_t b, size_t r, int mode)
{
    size_t big = ((size_t)1 << BIG_LG) + r, total = b + big; unsigned char *v = virtual_buffer(total + TILE), ref[64], got[64]; RefCtx rc; PCryptoHash *h; psize len = ALG[A].dlen; char gh[132], rh[132];
    snprintf(cur, sizeof cur, "big:%zu.%zu.%d.%d.%d", b, r, mode, BIG_LG, CHUNK_LG);
    hout_progress("sig=%s/big hash_enum big %d %zu %zu %d %d %d", ALG[A].name, A, b, r, mode, BIG_LG, CHUNK_LG);
    ref_init(&rc); { size_t off = 0; while (off < total) { size_t c = total - off > (64u << 20) ? (64u << 20) : total - off; ref_update(&rc, v + off, c); off += c; } } ref_digest(&rc, ref);
    h = p_crypto_hash_new(ALG[A].type);
    if (mode == 0) { if (b) p_crypto_hash_update(h, v, b); p_crypto_hash_update(h, v + b, big); }
    else { size_t off = 0, ch = (size_t)1 << CHUNK_LG; while (off < total) { size_t c = total - off > ch ? ch : total - off; p_crypto_hash_update(h, v + off, c); off += c; } }
    p_crypto_hash_get_digest(h, got, &len); p_crypto_hash_free(h);
    hex(got, ALG[A].dlen, gh); hex(ref, ALG[A].dlen, rh);
    if (memcmp(got, ref, ALG[A].dlen)) {
        char sig[96]; snprintf(sig, sizeof sig, mode ? "big/stream-crossing-2^%d" : (b ? "big/single-update-2^%d-buffered" : "big/single-update-2^%d"), BIG_LG);
        viol(sig, "%zu bytes buffered, then %s of 2^%d+%zu bytes%s: digest %s, standard digest %s", b, mode ? "chunks totalling" : "one update", BIG_LG, r, mode ? (CHUNK_LG == 20 ? " (1 MiB chunks)" : " (large chunks)") : "", gh, rh);
    }
    hout_stat("evaluations", 1); hout_stat("big_inputs", 1); hout_stat("nontrivial", 1);
    hout_sample("%s: update(%zu) then %s 2^%d+%zu bytes", ALG[A].name, b, mode ? "chunks of" : "single update of", BIG_LG, r);
    return hout_nviol ? 1 : 0;
}

int main(int argc, char **argv)
{
    if (argc < 3) return 2;
    hout_open(); p_libsys_init();
    A = atoi(argv[2]); if (A < 0 || A > 10) return 2;
    if (!strcmp(argv[1], "small")) return do_small(argc > 3 ? atoi(argv[3]) : 5);
    if (!strcmp(argv[1], "big") && argc > 6) BIG_LG = atoi(argv[6]);
    if (!strcmp(argv[1], "big") && argc > 7) CHUNK_LG = atoi(argv[7]);
    if (!strcmp(argv[1], "big")) return do_big(strtoul(argv[3], NULL, 0), strtoul(argv[4], NULL, 0), atoi(argv[5]));
    if (!strcmp(argv[1], "replay")) {
        const char *s = argv[3]; replay_mode = 1; CC = argc > 4 ? atoi(argv[4]) : 0;
        if (!strncmp(s, "split:", 6)) {
            size_t l[3], tot = 0; int nl = 0, i; const char *p = s + 6; unsigned char *msg, ref[64];
            while (*p && nl < 3) { l[nl++] = strtoul(p, (char **)&p, 10); if (*p == '.') p++; }
            for (i = 0; i < nl; i++) tot += l[i];
            msg = malloc(tot + 1); for (i = 0; i < (int)tot; i++) msg[i] = pat(i);
            ref_oneshot(msg, tot, ref); check_split(msg, l, nl, ref);
        } else if (!strncmp(s, "seq:", 4)) run_seq(s + 4);
        else if (!strncmp(s, "big:", 4)) { size_t b, r; int m; sscanf(s + 4, "%zu.%zu.%d.%d.%d", &b, &r, &m, &BIG_LG, &CHUNK_LG); return do_big(b, r, m); }
        printf("replay finished: %ld violation report(s)\n", hout_nviol);
        return hout_nviol ? 1 : 0;
    }
    return 2;
}
