/* C19 binding probe (not a deciding step): delivers a real handled signal (handler installed without SA_RESTART) while a call
 * is blocked and records (a) the native convention of the interrupted system calls, which the EINTR injector of
 * harness/eintr_fault.c must mirror, and (b) that the library call's outcome is unchanged.  Real time, one shot per case.
 * prints lines "PROBE <name> <ok|MISMATCH> <detail>"; exit 1 on a mismatch. */
#define _GNU_SOURCE
#include <plibsys.h>
#include <errno.h>
#include <pthread.h>
#include <semaphore.h>
#include <signal.h>
#include <stdio.h>
#include <string.h>
#include <sys/time.h>
#include <time.h>
#include <unistd.h>

static volatile int got_signal;
static void handler(int s) { (void)s; got_signal++; }
static pthread_t main_thread;
static double now(void) { struct timespec t; clock_gettime(CLOCK_MONOTONIC, &t); return t.tv_sec + t.tv_nsec * 1e-9; }
static void *kicker(void *arg) { long ms = (long)arg; struct timespec ts; ts.tv_sec = ms / 1000; ts.tv_nsec = (ms % 1000) * 1000000L; nanosleep(&ts, NULL); pthread_kill(main_thread, SIGUSR1); return NULL; }
static int bad;
static void report(const char *name, int ok, const char *fmt, ...) { char b[300]; va_list ap; va_start(ap, fmt); vsnprintf(b, sizeof b, fmt, ap); va_end(ap); printf("PROBE %s %s %s\n", name, ok ? "ok" : "MISMATCH", b); if (!ok) bad++; }
static PSemaphore *psem;
static void *poster(void *a) { struct timespec ts = {0, 150000000}; (void)a; nanosleep(&ts, NULL); p_semaphore_release(psem, NULL); return NULL; }

int main(void)
{
    struct sigaction sa; pthread_t k, p; double t0; int rc; struct timespec req, rem; char nm[64];
    p_libsys_init();
    memset(&sa, 0, sizeof sa); sa.sa_handler = handler; sigemptyset(&sa.sa_mask); sa.sa_flags = 0;      /* no SA_RESTART */
    sigaction(SIGUSR1, &sa, NULL);
    main_thread = pthread_self();

    /* native conventions */
    req.tv_sec = 0; req.tv_nsec = 300000000; errno = 0; got_signal = 0;
    pthread_create(&k, NULL, kicker, (void *)50L);
    rc = clock_nanosleep(CLOCK_MONOTONIC, 0, &req, &rem); { int e = errno; pthread_join(k, NULL);
      report("convention/clock_nanosleep", rc == EINTR && e == 0 && got_signal == 1 && (rem.tv_sec > 0 || rem.tv_nsec > 0), "returned %d, errno %d, remaining %ld ns (injector: returns EINTR, errno untouched, remaining > 0)", rc, e, (long)rem.tv_nsec); }
    { sem_t s; sem_init(&s, 0, 0); errno = 0; got_signal = 0; pthread_create(&k, NULL, kicker, (void *)50L); rc = sem_wait(&s); { int e = errno; pthread_join(k, NULL); report("convention/sem_wait", rc == -1 && e == EINTR, "returned %d errno %d (injector: -1 / EINTR)", rc, e); } sem_destroy(&s); }

    /* library calls keep their outcome */
    got_signal = 0; pthread_create(&k, NULL, kicker, (void *)60L); t0 = now(); rc = p_uthread_sleep(250); { double dt = now() - t0; pthread_join(k, NULL);
      report("library/p_uthread_sleep", rc == 0 && dt >= 0.249 && got_signal == 1, "returned %d after %.0f ms with %d signal(s) handled (must be 0 after >= 250 ms)", rc, dt * 1000, got_signal); }
    snprintf(nm, sizeof nm, "vf19probe_%d", (int)getpid());
    psem = p_semaphore_new(nm, 0, P_SEM_ACCESS_CREATE, NULL);
    if (psem) { pboolean a; got_signal = 0; pthread_create(&p, NULL, poster, NULL); pthread_create(&k, NULL, kicker, (void *)50L); t0 = now(); a = p_semaphore_acquire(psem, NULL); { double dt = now() - t0; pthread_join(k, NULL); pthread_join(p, NULL);
      report("library/p_semaphore_acquire", a == TRUE && dt >= 0.14 && got_signal == 1, "returned %d after %.0f ms with %d signal(s) handled (unit arrives at 150 ms)", (int)a, dt * 1000, got_signal); }
      p_semaphore_take_ownership(psem); p_semaphore_free(psem); }
    {   /* blocking datagram receive with a time-out longer than the signal delay; the datagram arrives later */
        PSocketAddress *lo = p_socket_address_new("127.0.0.1", 0), *ua; PSocket *u = p_socket_new(P_SOCKET_FAMILY_INET, P_SOCKET_TYPE_DATAGRAM, P_SOCKET_PROTOCOL_UDP, NULL); char buf[8]; PError *e = NULL; pssize n;
        if (u && lo && p_socket_bind(u, lo, TRUE, NULL)) {
            p_socket_set_timeout(u, 200); got_signal = 0; pthread_create(&k, NULL, kicker, (void *)50L); t0 = now();
            n = p_socket_receive_from(u, NULL, buf, sizeof buf, &e); { double dt = now() - t0; pthread_join(k, NULL);
              report("library/p_socket_receive_from-timeout", n == -1 && e && p_error_get_code(e) == (pint)P_ERROR_IO_TIMED_OUT && dt >= 0.199 && got_signal == 1, "returned %ld (%d) after %.0f ms with %d signal(s) handled (must time out, not before 200 ms)", (long)n, e ? p_error_get_code(e) : 0, dt * 1000, got_signal); }
            p_error_free(e); ua = p_socket_get_local_address(u, NULL); p_socket_address_free(ua);
        }
        p_socket_free(u); p_socket_address_free(lo);
    }
    return bad ? 1 : 0;
}
