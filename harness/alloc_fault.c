/* C18: exhaustive single-fault enumeration of allocation failures.
 * For every scenario: count the allocations N of its run(); then for every k < N and both modes (k only / k and all later)
 * a forked child installs the failing allocator through p_mem_set_vtable, runs the scenario and checks: no crash / sanitizer
 * report, every block allocated during run() is freed again once run() has freed the objects it obtained, objects that
 * existed before the call answer exactly as before.
 *
 * usage: alloc_fault list | count <scenario> | run <scenario> <k> <mode 0|1> | all [<scenario>]
 */
#define _GNU_SOURCE
#include <plibsys.h>
#include "hout.h"
#include "netns.h"
#include <pthread.h>
#include <sys/wait.h>
#include <unistd.h>
#include <sanitizer/common_interface_defs.h>

/* ------------------------------------------------------------------ failing / tracking allocator (public vtable API) */
static long alloc_idx = -1;          /* -1: not counting */
static long fail_at = -1, fail_at2 = -1; static int fail_all_after;
static long live_blocks; static long run_allocs;
static void *fail_pc; static long fails_injected;
static pthread_mutex_t amtx = PTHREAD_MUTEX_INITIALIZER;
static int __attribute__((noinline)) should_fail(void)
{
    long i;
    if (alloc_idx < 0) return 0;
    i = alloc_idx++;
    if (fail_at >= 0 && (i == fail_at || i == fail_at2 || (fail_all_after && i > fail_at))) { if (!fail_pc) fail_pc = __builtin_return_address(2); fails_injected++; return 1; }
    return 0;
}
static ppointer v_malloc(psize n) { void *p; pthread_mutex_lock(&amtx); if (should_fail()) { pthread_mutex_unlock(&amtx); return NULL; } p = malloc(n ? n : 1); if (p) live_blocks++; pthread_mutex_unlock(&amtx); return p; }
static ppointer v_realloc(ppointer m, psize n) { void *p; pthread_mutex_lock(&amtx); if (should_fail()) { pthread_mutex_unlock(&amtx); return NULL; } p = realloc(m, n ? n : 1); if (p && !m) live_blocks++; pthread_mutex_unlock(&amtx); return p; }
static void v_free(ppointer m) { pthread_mutex_lock(&amtx); if (m) live_blocks--; free(m); pthread_mutex_unlock(&amtx); }

/* ------------------------------------------------------------------ scenarios */
typedef struct Scenario { const char *name; void (*setup)(void); void (*run)(void); const char *(*verify)(void); void (*teardown)(void); } Scenario;
static char scratch[256];      /* scratch directory with two files */
static char ini_path[300];
static char msg[256];

/* --- trees --- */
static PTree *g_tree; static int tree_type;
static pint cmp_int(pconstpointer a, pconstpointer b) { return P_POINTER_TO_INT(a) - P_POINTER_TO_INT(b); }
static void tree_setup(void) { int i; g_tree = p_tree_new((PTreeType)tree_type, cmp_int); for (i = 1; i <= 5; i += 2) p_tree_insert(g_tree, P_INT_TO_POINTER(i * 10), P_INT_TO_POINTER(i)); }
static void tree_run(void)
{
    PTree *t;
    p_tree_insert(g_tree, P_INT_TO_POINTER(20), P_INT_TO_POINTER(99));      /* new node: allocates */
    p_tree_insert(g_tree, P_INT_TO_POINTER(30), P_INT_TO_POINTER(3));       /* replace: same value */
    p_tree_remove(g_tree, P_INT_TO_POINTER(20));
    t = p_tree_new((PTreeType)tree_type, cmp_int);
    if (t) { p_tree_insert(t, P_INT_TO_POINTER(1), NULL); p_tree_insert(t, P_INT_TO_POINTER(2), NULL); p_tree_free(t); }
}
static const char *tree_verify(void)
{
    int i;
    if (p_tree_get_nnodes(g_tree) != 3) { snprintf(msg, sizeof msg, "pre-existing tree has %d nodes, expected 3", p_tree_get_nnodes(g_tree)); return msg; }
    for (i = 1; i <= 5; i += 2) if (p_tree_lookup(g_tree, P_INT_TO_POINTER(i * 10)) != P_INT_TO_POINTER(i)) return "pre-existing tree lost or changed a pair";
    return NULL;
}
static void tree_teardown(void) { p_tree_free(g_tree); }
static void tree0_setup(void) { tree_type = 0; tree_setup(); } static void tree1_setup(void) { tree_type = 1; tree_setup(); } static void tree2_setup(void) { tree_type = 2; tree_setup(); }

/* --- hash table + list --- */
static PHashTable *g_ht; static PList *g_list;
static void ht_setup(void) { g_ht = p_hash_table_new(); p_hash_table_insert(g_ht, P_INT_TO_POINTER(1), P_INT_TO_POINTER(11)); p_hash_table_insert(g_ht, P_INT_TO_POINTER(102), P_INT_TO_POINTER(12)); g_list = p_list_append(NULL, P_INT_TO_POINTER(5)); g_list = p_list_append(g_list, P_INT_TO_POINTER(6)); }
static void ht_run(void)
{
    PHashTable *t; PList *l, *nl;
    p_hash_table_insert(g_ht, P_INT_TO_POINTER(203), P_INT_TO_POINTER(13));
    l = p_hash_table_keys(g_ht); p_list_free(l);
    l = p_hash_table_values(g_ht); p_list_free(l);
    l = p_hash_table_lookup_by_value(g_ht, P_INT_TO_POINTER(11), NULL); p_list_free(l);
    p_hash_table_remove(g_ht, P_INT_TO_POINTER(203));
    t = p_hash_table_new(); if (t) { p_hash_table_insert(t, NULL, NULL); p_hash_table_free(t); }
    nl = p_list_append(g_list, P_INT_TO_POINTER(7)); if (nl) g_list = nl; g_list = p_list_remove(g_list, P_INT_TO_POINTER(7));
    nl = p_list_prepend(g_list, P_INT_TO_POINTER(8)); if (nl) g_list = nl; g_list = p_list_remove(g_list, P_INT_TO_POINTER(8));
}
static const char *ht_verify(void)
{
    if (p_hash_table_lookup(g_ht, P_INT_TO_POINTER(1)) != P_INT_TO_POINTER(11) || p_hash_table_lookup(g_ht, P_INT_TO_POINTER(102)) != P_INT_TO_POINTER(12) || p_hash_table_lookup(g_ht, P_INT_TO_POINTER(203)) != (ppointer)-1) return "pre-existing hash table content changed";
    if (p_list_length(g_list) != 2 || g_list->data != P_INT_TO_POINTER(5) || g_list->next->data != P_INT_TO_POINTER(6)) return "pre-existing list content changed";
    return NULL;
}
static void ht_teardown(void) { p_hash_table_free(g_ht); p_list_free(g_list); }

/* --- strings + errors --- */
static void none(void) {}
static const char *ok(void) { return NULL; }
static void str_run(void)
{
    pchar *a = p_strdup("hello world"), *b = p_strchomp("  padded  "), *c, *tok, *save = NULL; PError *e, *e2 = NULL, *e3; double d = p_strtod("12.5e1");
    char buf[32] = "a b c";
    (void)d; tok = p_strtok(buf, " ", &save); (void)tok;
    if (a && strcmp(a, "hello world")) abort();
    if (b && strcmp(b, "padded")) abort();
    c = p_strchomp("   "); p_free(c); p_free(a); p_free(b);
    e = p_error_new_literal(3, 4, "message"); e3 = p_error_copy(e);
    p_error_set_error_p(&e2, 5, 6, "another");
    if (e) p_error_set_message(e, "changed");
    if (e) p_error_set_error(e, 7, 8, "third");
    p_error_free(e); p_error_free(e2); p_error_free(e3);
    e = p_error_new(); p_error_free(e);
}

/* --- INI --- */
static void ini_run(void)
{
    PIniFile *f = p_ini_file_new(ini_path); PList *l, *c; pchar *s;
    if (!f) return;
    if (p_ini_file_parse(f, NULL)) {
        l = p_ini_file_sections(f); for (c = l; c; c = c->next) p_free(c->data); p_list_free(l);
        l = p_ini_file_keys(f, "numbers"); for (c = l; c; c = c->next) p_free(c->data); p_list_free(l);
        s = p_ini_file_parameter_string(f, "strings", "s", "dflt"); p_free(s);
        (void)p_ini_file_parameter_int(f, "numbers", "i", 1); (void)p_ini_file_parameter_double(f, "numbers", "d", 1.0); (void)p_ini_file_parameter_boolean(f, "numbers", "b", FALSE);
        l = p_ini_file_parameter_list(f, "lists", "l"); for (c = l; c; c = c->next) p_free(c->data); p_list_free(l);
    }
    p_ini_file_free(f);
}

/* --- crypto --- */
static char crypto_expect[16][140];
static void crypto_setup(void)
{
    int t;
    for (t = (int)P_CRYPTO_HASH_TYPE_MD5; t <= (int)P_CRYPTO_HASH_TYPE_GOST; t++) { PCryptoHash *h = p_crypto_hash_new((PCryptoHashType)t); pchar *s; p_crypto_hash_update(h, (const puchar *)"abc", 3); s = p_crypto_hash_get_string(h); snprintf(crypto_expect[t], sizeof crypto_expect[t], "%s", s); p_free(s); p_crypto_hash_free(h); }
}
static int crypto_bad;
static void crypto_run(void)
{
    int t;
    for (t = (int)P_CRYPTO_HASH_TYPE_MD5; t <= (int)P_CRYPTO_HASH_TYPE_GOST; t++) {
        PCryptoHash *h = p_crypto_hash_new((PCryptoHashType)t); pchar *s; int tries;
        if (!h) continue;
        p_crypto_hash_update(h, (const puchar *)"abc", 3);
        for (tries = 0; tries < 3; tries++) {          /* a read that failed for lack of memory is simply repeated: the object must still give the right digest */
            s = p_crypto_hash_get_string(h);
            if (s) { if (strcmp(s, crypto_expect[t])) crypto_bad = t + 1; p_free(s); break; }
        }
        p_crypto_hash_free(h);
    }
}
static const char *crypto_verify(void) { if (crypto_bad) { snprintf(msg, sizeof msg, "hash object (type %d) returned a wrong digest when get_string was repeated after a failed allocation", crypto_bad - 1); return msg; } return NULL; }

/* --- IPC --- */
static char ipcname[64];
static void ipc_run(void)
{
    PSemaphore *s; PShm *m; PShmBuffer *b;
    s = p_semaphore_new(ipcname, 1, P_SEM_ACCESS_CREATE, NULL); if (s) { p_semaphore_take_ownership(s); p_semaphore_free(s); }
    m = p_shm_new(ipcname, 128, P_SHM_ACCESS_READWRITE, NULL); if (m) { p_shm_take_ownership(m); p_shm_free(m); }
    b = p_shm_buffer_new(ipcname, 32, NULL); if (b) { p_shm_buffer_take_ownership(b); p_shm_buffer_free(b); }
}
extern int ipcnames_live(char *buf, size_t sz);
static const char *ipc_verify(void) { static char live[300]; if (ipcnames_live(live, sizeof live)) { snprintf(msg, sizeof msg, "IPC names left behind by a failed constructor: %s", live); return msg; } return NULL; }

/* --- sockets (real loopback) --- */
static void sock_run(void)
{
    PSocketAddress *any = p_socket_address_new_any(P_SOCKET_FAMILY_INET, 0), *lo = p_socket_address_new_loopback(P_SOCKET_FAMILY_INET, 0), *txt = p_socket_address_new("127.0.0.1", 0), *la = NULL, *ra = NULL, *from = NULL;
    PSocket *srv = p_socket_new(P_SOCKET_FAMILY_INET, P_SOCKET_TYPE_STREAM, P_SOCKET_PROTOCOL_TCP, NULL), *cli = NULL, *acc = NULL, *udp = NULL; pchar *s; char buf[8];
    if (txt) { s = p_socket_address_get_address(txt); p_free(s); }
    if (srv && txt && p_socket_bind(srv, txt, TRUE, NULL) && p_socket_listen(srv, NULL)) {
        la = p_socket_get_local_address(srv, NULL);
        cli = p_socket_new(P_SOCKET_FAMILY_INET, P_SOCKET_TYPE_STREAM, P_SOCKET_PROTOCOL_TCP, NULL);
        if (cli && la) {
            p_socket_set_timeout(cli, 2000); p_socket_set_timeout(srv, 2000);
            if (p_socket_connect(cli, la, NULL)) {
                acc = p_socket_accept(srv, NULL);
                if (acc) { ra = p_socket_get_remote_address(acc, NULL); p_socket_address_free(ra); ra = p_socket_get_local_address(acc, NULL); p_socket_address_free(ra); }
            }
        }
    }
    udp = p_socket_new(P_SOCKET_FAMILY_INET, P_SOCKET_TYPE_DATAGRAM, P_SOCKET_PROTOCOL_UDP, NULL);
    if (udp && lo && p_socket_bind(udp, lo, TRUE, NULL)) {
        PSocketAddress *ua = p_socket_get_local_address(udp, NULL);
        if (ua) { p_socket_set_timeout(udp, 2000); if (p_socket_send_to(udp, ua, "hi", 2, NULL) == 2) { p_socket_receive_from(udp, &from, buf, sizeof buf, NULL); p_socket_address_free(from); } p_socket_address_free(ua); }
    }
    p_socket_free(acc); p_socket_free(cli); p_socket_free(srv); p_socket_free(udp);
    p_socket_address_free(any); p_socket_address_free(lo); p_socket_address_free(txt); p_socket_address_free(la);
}

/* --- dir / library loader --- */
static void dir_run(void)
{
    PDir *d = p_dir_new(scratch, NULL); PDirEntry *e; pchar *p; int i;
    if (!d) return;
    for (i = 0; i < 5; i++) { e = p_dir_get_next_entry(d, NULL); if (!e) break; p_dir_entry_free(e); }
    p = p_dir_get_path(d); p_free(p);
    p_dir_rewind(d, NULL);
    e = p_dir_get_next_entry(d, NULL); p_dir_entry_free(e);
    p_dir_free(d);
}
static void lib_run(void)
{
    PLibraryLoader *l = p_library_loader_new("libm.so.6"), *bad; pchar *err;
    if (l) { (void)p_library_loader_get_symbol(l, "cos"); (void)p_library_loader_get_symbol(l, "no_such_symbol_x"); err = p_library_loader_get_last_error(l); p_free(err); p_library_loader_free(l); }
    bad = p_library_loader_new("/nonexistent/lib.so"); err = p_library_loader_get_last_error(bad); p_free(err); p_library_loader_free(bad);
}

/* --- threads + locks --- */
static ppointer thr_body(ppointer a) { PUThread *me = p_uthread_current(); (void)me; return a; }
static void *foreign_thread(void *a) { PUThread *me = p_uthread_current(); (void)me; return a; }
static PUThreadKey *g_key;
static void thr_run(void)
{
    PUThread *t = p_uthread_create(thr_body, NULL, TRUE, "a_rather_long_thread_name_for_the_name_buffer"); pthread_t ft; PUThreadKey *k;
    if (t) { p_uthread_join(t); p_uthread_unref(t); }
    if (pthread_create(&ft, NULL, foreign_thread, NULL) == 0) pthread_join(ft, NULL);
    k = p_uthread_local_new(NULL);
    if (k) { p_uthread_set_local(k, &k); if (p_uthread_get_local(k) != NULL && p_uthread_get_local(k) != &k) abort(); p_uthread_replace_local(k, NULL); p_uthread_local_free(k); }
    (void)g_key;
}
static void lock_run(void)
{
    PMutex *m = p_mutex_new(); PCondVariable *c = p_cond_variable_new(); PSpinLock *s = p_spinlock_new(); PRWLock *r = p_rwlock_new();
    if (m) { p_mutex_lock(m); p_mutex_unlock(m); } if (s) { p_spinlock_lock(s); p_spinlock_unlock(s); } if (r) { p_rwlock_reader_lock(r); p_rwlock_reader_unlock(r); p_rwlock_writer_lock(r); p_rwlock_writer_unlock(r); } if (c) p_cond_variable_signal(c);
    p_mutex_free(m); p_cond_variable_free(c); p_spinlock_free(s); p_rwlock_free(r);
}

static void misc_run(void)
{
    PTimeProfiler *t = p_time_profiler_new(); pchar *tok, *save = NULL; char buf[24] = "x,y,,z";
    if (t) { (void)p_time_profiler_elapsed_usecs(t); p_time_profiler_reset(t); p_time_profiler_free(t); }
    tok = p_strtok(buf, ",", &save); while (tok) tok = p_strtok(NULL, ",", &save);
    (void)p_process_get_current_pid(); (void)p_process_is_running(p_process_get_current_pid());
    (void)p_file_is_exists(ini_path);
}

static const Scenario SC[] = {
    {"tree-bst", tree0_setup, tree_run, tree_verify, tree_teardown}, {"tree-rb", tree1_setup, tree_run, tree_verify, tree_teardown}, {"tree-avl", tree2_setup, tree_run, tree_verify, tree_teardown},
    {"hashtable-list", ht_setup, ht_run, ht_verify, ht_teardown}, {"strings-errors", none, str_run, ok, none}, {"inifile", none, ini_run, ok, none}, {"cryptohash", crypto_setup, crypto_run, crypto_verify, none},
    {"ipc", none, ipc_run, ipc_verify, none}, {"sockets", none, sock_run, ok, none}, {"dir", none, dir_run, ok, none}, {"libraryloader", none, lib_run, ok, none},
    {"threads-tls", none, thr_run, ok, none}, {"locks", none, lock_run, ok, none}, {"timeprofiler-strtok-process-file", none, misc_run, ok, none},
};
#define NSC ((int)(sizeof SC / sizeof SC[0]))

/* retained by design: the pthread key of a PUThreadKey is documented as not removed; its block stays (C20 judges that, not C18) */
static long tolerated_retention(const Scenario *s) { return !strcmp(s->name, "threads-tls") ? 1 : 0; }

static long PAIR2 = -1;
static int child_run(const Scenario *s, long k, int mode, long *nallocs)
{
    static const PMemVTable vt = { v_malloc, v_realloc, v_free }; const char *v; long before;
    p_libsys_init();
    if (!p_mem_set_vtable(&vt)) return 40;
    {   /* warm-up of lazily created library globals so that they are not attributed to the scenario */
        PUThread *me = p_uthread_current(); (void)me;
    }
    s->setup();
    before = live_blocks;
    fail_at = k; fail_at2 = PAIR2; fail_all_after = mode; alloc_idx = 0;
    s->run();
    if (nallocs) *nallocs = alloc_idx;
    alloc_idx = -1; fail_at = -1; fail_at2 = -1;
    if (k >= 0 && fails_injected == 0) return 43;          /* the fault was never reached (nondeterministic allocation count) */
    if (live_blocks - before > tolerated_retention(s)) { fprintf(stderr, "LEAK %ld block(s)\n", live_blocks - before); return 41; }
    v = s->verify();
    if (v) { fprintf(stderr, "VERIFY %s\n", v); return 42; }
    s->teardown();
    return 0;
}

static void where(char *out, size_t n) { if (fail_pc) __sanitizer_symbolize_pc(fail_pc, "%f", out, n); else snprintf(out, n, "?"); }

int main(int argc, char **argv)
{
    int i, only = -1, pairs = 0; long total = 0, nontriv = 0;
    if (argc < 2) return 2;
    verif_private_netns(); hout_open();
    snprintf(scratch, sizeof scratch, "%s", getenv("VERIF_SCRATCH_DIR") ? getenv("VERIF_SCRATCH_DIR") : "/tmp");
    snprintf(ini_path, sizeof ini_path, "%s/c18.ini", scratch);
    snprintf(ipcname, sizeof ipcname, "vf18_%d", (int)getpid());
    if (!strcmp(argv[1], "run") && argc >= 5) {
        if (argc >= 6) PAIR2 = atol(argv[5]);
        for (i = 0; i < NSC; i++) if (!strcmp(SC[i].name, argv[2])) { int rc = child_run(&SC[i], atol(argv[3]), atoi(argv[4]), NULL); char w[128]; where(w, sizeof w); printf("scenario %s k=%s mode=%s: rc %d (failing allocation requested by %s)\n", argv[2], argv[3], argv[4], rc, w); return rc ? 1 : 0; }
        return 2;
    }
    if (argc >= 3) for (i = 0; i < NSC; i++) if (!strcmp(SC[i].name, argv[2])) only = i;
    pairs = argc >= 4 && !strcmp(argv[3], "pairs");
    for (i = 0; i < NSC; i++) {
        long n = -1, k; int mode, st; pid_t pid; int pfd[2];
        if (only >= 0 && i != only) continue;
        /* count */
        if (pipe(pfd) < 0) return 2;
        pid = fork();
        if (pid == 0) { long na = 0; int rc = child_run(&SC[i], -1, 0, &na); if (write(pfd[1], &na, sizeof na) < 0) {} _exit(rc); }
        close(pfd[1]); if (read(pfd[0], &n, sizeof n) != sizeof n) n = -1; close(pfd[0]); waitpid(pid, &st, 0);
        if (n < 0 || !WIFEXITED(st) || WEXITSTATUS(st) != 0) {
            char sg[96]; snprintf(sg, sizeof sg, "%s/fault-free-run-failed", SC[i].name);
            hout_viol("C18", sg, "", "scenario %s fails even without an injected fault (status %d)", SC[i].name, st); continue;
        }
        hout_note("scenario %s: %ld allocations", SC[i].name, n);
        for (k = 0; k < n; k++) for (mode = 0; mode < (pairs ? (int)(n - k) : 2); mode++) {
            int efd[2]; char errbuf[1200] = "", wbuf[160] = "?"; ssize_t got; int wfd[2];
            if (pipe(efd) < 0 || pipe(wfd) < 0) return 2;
            total++;
            hout_progress("sig=%s/driver alloc_fault run %s %ld %d", SC[i].name, SC[i].name, k, mode);
            if (pairs) PAIR2 = mode == 0 ? -1 : k + mode;
            pid = fork();
            if (pid == 0) { int rc; char w[160]; dup2(efd[1], 2); close(efd[0]); close(wfd[0]); rc = child_run(&SC[i], k, pairs ? 0 : mode, NULL); where(w, sizeof w); if (write(wfd[1], w, strlen(w) + 1) < 0) {} _exit(rc); }
            close(efd[1]); close(wfd[1]);
            got = read(efd[0], errbuf, sizeof errbuf - 1); if (got < 0) got = 0; errbuf[got] = 0; { char drain[512]; while (read(efd[0], drain, sizeof drain) > 0) ; } close(efd[0]);
            got = read(wfd[0], wbuf, sizeof wbuf - 1); if (got > 0) wbuf[got] = 0; close(wfd[0]);
            waitpid(pid, &st, 0);
            if (WIFEXITED(st) && WEXITSTATUS(st) == 0) { nontriv++; continue; }
            {
                char sg[200], rp[200]; const char *kind = "crash";
                if (WIFEXITED(st) && WEXITSTATUS(st) == 41) kind = "leak"; else if (WIFEXITED(st) && WEXITSTATUS(st) == 42) kind = "pre-existing-object-changed"; else if (WIFEXITED(st) && WEXITSTATUS(st) == 43) kind = "fault-not-reached";
                if (!strcmp(kind, "crash") && wbuf[0] == '?') { /* the child died before reporting: symbolize from the sanitizer output */ char *p = strstr(errbuf, " in "); if (p) { sscanf(p + 4, "%150s", wbuf); } }
                snprintf(sg, sizeof sg, "%s/%s/%s", SC[i].name, kind, wbuf);
                snprintf(rp, sizeof rp, "alloc_fault run %s %ld %d %ld", SC[i].name, k, pairs ? 0 : mode, pairs ? PAIR2 : -1L);
                if (!strcmp(kind, "fault-not-reached")) { hout_note("scenario %s k=%ld: allocation count not stable, fault not reached", SC[i].name, k); continue; }
                hout_viol("C18", sg, rp, "scenario %s, allocation #%ld fails (%s): %s%s%.600s", SC[i].name, k, pairs ? (PAIR2 >= 0 ? "together with one later allocation" : "this one only") : mode ? "and all later ones" : "this one only",
                          !strcmp(kind, "crash") ? (WIFSIGNALED(st) ? "process killed by a signal / sanitizer abort" : "process aborted") : !strcmp(kind, "leak") ? "blocks allocated during the failed calls are still allocated after the objects involved were freed" : "an object that existed before the call was changed",
                          errbuf[0] ? "\n" : "", errbuf);
            }
        }
    }
    hout_stat("evaluations", total); hout_stat("nontrivial", nontriv); hout_stat("scenarios", only >= 0 ? 1 : NSC);
    hout_sample("scenario tree-rb: allocation #0 (the node of p_tree_insert) fails once / from then on; pre-existing 3-node tree must be unchanged");
    return hout_nviol ? 1 : 0;
}
