/* C01 (thorough): one lock word, one holder, N consecutive failing p_spinlock_trylock calls by another thread (N > 2^32):
 * every one must return FALSE (a lock word that counts failed attempts wraps to "free" after 2^32 of them), and once the
 * holder releases the lock the next trylock must succeed.  One deterministic execution per atomic model on real threads:
 * the holder does nothing while the poller runs, so there is no schedule to enumerate, only the count.
 *
 * usage: count_wrap <log2 N> <extra>          N = 2^log2N + extra
 */
#include <plibsys.h>
#include "hout.h"
#include <pthread.h>
#include <stdint.h>

static PSpinLock *lk; static uint64_t N; static volatile int inside;
static uint64_t first_true = 0; static int got_true;

static void *poller(void *a)
{
    uint64_t i; (void)a;
    for (i = 1; i <= N; i++) if (p_spinlock_trylock(lk)) { got_true = 1; first_true = i; break; }
    return NULL;
}

int main(int argc, char **argv)
{
    pthread_t th; int lg = argc > 1 ? atoi(argv[1]) : 32; uint64_t extra = argc > 2 ? (uint64_t)atoll(argv[2]) : 16;
    hout_open(); p_libsys_init();
    N = ((uint64_t)1 << lg) + extra;
    lk = p_spinlock_new();
    if (!lk || !p_spinlock_lock(lk)) { hout_viol("C01", "spinlock/new-or-lock-failed", "count_wrap", "p_spinlock_new / p_spinlock_lock failed"); return 1; }
    inside = 1;
    hout_progress("sig=spinlock/wrap/crash count_wrap %d %llu", lg, (unsigned long long)extra);
    pthread_create(&th, NULL, poller, NULL); pthread_join(th, NULL);
    if (got_true) {
        char rp[96]; snprintf(rp, sizeof rp, "count_wrap %d %llu", lg, (unsigned long long)extra);
        hout_viol("C01", "spinlock/exclusion/trylock-after-many-failed-attempts", rp, "p_spinlock_trylock call number %llu returned TRUE while another thread holds the lock (the earlier %llu calls correctly returned FALSE)",
                  (unsigned long long)first_true, (unsigned long long)first_true - 1);
    }
    inside = 0;
    p_spinlock_unlock(lk);
    if (!got_true && !p_spinlock_trylock(lk)) hout_viol("C01", "spinlock/trylock-failed-on-free-lock", "count_wrap", "trylock failed on the released lock after %llu failed attempts", (unsigned long long)N);
    hout_stat("evaluations", (long)(N >> 20)); hout_stat("failed_trylock_calls_millions", (long)(N >> 20)); hout_stat("nontrivial", 1);
    hout_sample("count_wrap: %llu consecutive trylock calls on a held spinlock, all FALSE: %s", (unsigned long long)N, got_true ? "no" : "yes");
    return hout_nviol ? 1 : 0;
}
