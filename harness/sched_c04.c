/* C04: atomic operations.
 *  values                      single thread: every op on every (word, operand) pair of a boundary alphabet vs the C expression
 *  lin <init> <t0ops> <t1ops> [<t2ops>]   threads run their op lists on one shared word; brute-force linearizability
 *        op codes: i inc | a<k> add | d dec_and_test | c<e>:<n> cas | n<m> and | o<m> or | x<m> xor | s<v> set | g get ; prefix P = pointer op
 *  mp <i|p>                    message passing through set/get: the happens-before monitor must stay silent on the payload
 *  sb <ii|pp|ip>                store-buffering (Dekker) litmus through set/get under the runtime's x86-TSO store buffers (-B): each thread sets its own
 *                              word and then gets the other's; both reading the old value means set/get let a load pass the earlier store
 *  barrier                     every set/get must contain a full barrier (accounted by the runtime from the memory orders it is handed)
 */
#include <plibsys.h>
#include "mc.h"
#include <stdint.h>
#include <stdlib.h>
#include <string.h>
#include <limits.h>
#include <stdio.h>

/* ------------------------------------------------------------------ values */
static const int32_t A32[] = {0, 1, 2, -1, INT_MAX, INT_MIN, INT_MAX - 1, 0x55555555, (int32_t)0xAAAAAAAA};
#define NA ((int)(sizeof A32 / sizeof A32[0]))
static uintptr_t AP[NA];
static volatile pint w32; static volatile puint wu32;
static volatile psize wp;

#define VFAIL(sig, ...) mc_fail("C04", "values/" sig, __VA_ARGS__)

static void h_values(int argc, char **argv)
{
    int i, j, k; long n = 0;
    (void)argc; (void)argv;
    for (i = 0; i < NA; i++) AP[i] = (uintptr_t)(intptr_t)A32[i];
    AP[4] = (uintptr_t)INTPTR_MAX; AP[5] = (uintptr_t)INTPTR_MIN; AP[6] = (uintptr_t)INTPTR_MAX - 1;
    AP[7] = (uintptr_t)0x5555555555555555ull; AP[8] = (uintptr_t)0xAAAAAAAAAAAAAAAAull;
    for (i = 0; i < NA; i++) for (j = 0; j < NA; j++) {
        int32_t a = A32[i], b = A32[j]; uint32_t ua = (uint32_t)a, ub = (uint32_t)b; pint r; puint ur; pboolean z;
        p_atomic_int_set(&w32, a); if (p_atomic_int_get(&w32) != a) VFAIL("int_set_get", "set(%d) then get gave %d", a, p_atomic_int_get(&w32));
        p_atomic_int_set(&w32, a); p_atomic_int_inc(&w32); if ((uint32_t)w32 != ua + 1u) VFAIL("int_inc", "inc of %d stored %d", a, w32);
        p_atomic_int_set(&w32, a); z = p_atomic_int_dec_and_test(&w32);
        if ((uint32_t)w32 != ua - 1u || (z == TRUE) != (ua - 1u == 0)) VFAIL("int_dec_and_test", "dec_and_test of %d stored %d returned %d", a, w32, (int)z);
        p_atomic_int_set(&w32, a); r = p_atomic_int_add(&w32, b);
        if (r != a || (uint32_t)w32 != ua + ub) VFAIL("int_add", "add(%d,%d) returned %d stored %d", a, b, r, w32);
        wu32 = ua; ur = p_atomic_int_and(&wu32, ub); if (ur != ua || wu32 != (ua & ub)) VFAIL("int_and", "and(%#x,%#x) returned %#x stored %#x", ua, ub, ur, wu32);
        wu32 = ua; ur = p_atomic_int_or(&wu32, ub); if (ur != ua || wu32 != (ua | ub)) VFAIL("int_or", "or(%#x,%#x) returned %#x stored %#x", ua, ub, ur, wu32);
        wu32 = ua; ur = p_atomic_int_xor(&wu32, ub); if (ur != ua || wu32 != (ua ^ ub)) VFAIL("int_xor", "xor(%#x,%#x) returned %#x stored %#x", ua, ub, ur, wu32);
        n += 8;
        for (k = 0; k < NA; k++) {
            int32_t c = A32[k]; pboolean ok;
            p_atomic_int_set(&w32, a); ok = p_atomic_int_compare_and_exchange(&w32, b, c);
            if ((ok == TRUE) != (a == b) || w32 != (a == b ? c : a)) VFAIL("int_cas", "cas(word %d, expected %d, new %d) returned %d stored %d", a, b, c, (int)ok, w32);
            n++;
        }
        {   /* pointer-width ops */
            uintptr_t pa = AP[i], pb = AP[j]; psize pr; pssize sr; ppointer got;
            p_atomic_pointer_set(&wp, (ppointer)pa); got = p_atomic_pointer_get(&wp);
            if ((uintptr_t)got != pa) VFAIL("pointer_set_get", "pointer set(%#lx) then get gave %#lx", (unsigned long)pa, (unsigned long)(uintptr_t)got);
            wp = pa; sr = p_atomic_pointer_add(&wp, (pssize)pb); if ((uintptr_t)sr != pa || wp != pa + pb) VFAIL("pointer_add", "pointer add(%#lx,%#lx) returned %#lx stored %#lx", (unsigned long)pa, (unsigned long)pb, (unsigned long)sr, (unsigned long)wp);
            wp = pa; pr = p_atomic_pointer_and(&wp, pb); if (pr != pa || wp != (pa & pb)) VFAIL("pointer_and", "pointer and(%#lx,%#lx) returned %#lx stored %#lx", (unsigned long)pa, (unsigned long)pb, (unsigned long)pr, (unsigned long)wp);
            wp = pa; pr = p_atomic_pointer_or(&wp, pb); if (pr != pa || wp != (pa | pb)) VFAIL("pointer_or", "pointer or(%#lx,%#lx) returned %#lx stored %#lx", (unsigned long)pa, (unsigned long)pb, (unsigned long)pr, (unsigned long)wp);
            wp = pa; pr = p_atomic_pointer_xor(&wp, pb); if (pr != pa || wp != (pa ^ pb)) VFAIL("pointer_xor", "pointer xor(%#lx,%#lx) returned %#lx stored %#lx", (unsigned long)pa, (unsigned long)pb, (unsigned long)pr, (unsigned long)wp);
            n += 5;
            for (k = 0; k < NA; k++) {
                uintptr_t pc = AP[k]; pboolean ok;
                wp = pa; ok = p_atomic_pointer_compare_and_exchange(&wp, (ppointer)pb, (ppointer)pc);
                if ((ok == TRUE) != (pa == pb) || wp != (pa == pb ? pc : pa)) VFAIL("pointer_cas", "pointer cas(word %#lx, expected %#lx, new %#lx) returned %d stored %#lx", (unsigned long)pa, (unsigned long)pb, (unsigned long)pc, (int)ok, (unsigned long)wp);
                n++;
            }
        }
    }
    if (!p_atomic_is_lock_free() && 0) mc_step();
    mc_nontrivial(0);
    mc_outcome("checked=%ld", n);
}

/* ------------------------------------------------------------------ linearizability */
typedef struct { char code; int ptr; long a, b; long res; } LOp;
typedef struct { int n; LOp op[4]; } LThread;
static LThread LT[3]; static int nlt;
static long init_val;
static volatile pint sw32; static volatile psize swp;
static int use_ptr;

static int parse_ops(const char *s, LThread *t)
{
    t->n = 0;
    while (*s && t->n < 4) {
        LOp *o = &t->op[t->n]; memset(o, 0, sizeof *o);
        if (*s == 'P') { o->ptr = 1; s++; }
        o->code = *s++;
        if (strchr("anoxsc", o->code)) o->a = strtol(s, (char **)&s, 0);
        if (o->code == 'c') { if (*s == ':') s++; o->b = strtol(s, (char **)&s, 0); }
        t->n++;
        if (*s == ',') s++;
    }
    return t->n;
}

/* sequential reference on a wrapping word */
static long ref_apply(const LOp *o, uint64_t *w, int ptr)
{
    uint64_t mask = ptr ? ~0ull : 0xffffffffull, old = *w & mask; long res = 0;
    switch (o->code) {
    case 'i': *w = (old + 1) & mask; break;
    case 'a': *w = (old + (uint64_t)o->a) & mask; res = ptr ? (long)old : (long)(int32_t)old; break;
    case 'd': *w = (old - 1) & mask; res = (*w == 0); break;
    case 'c': if (old == ((uint64_t)o->a & mask)) { *w = (uint64_t)o->b & mask; res = 1; } else res = 0; break;
    case 'n': *w = old & (uint64_t)o->a & mask; res = ptr ? (long)old : (long)(uint32_t)old; break;
    case 'o': *w = (old | (uint64_t)o->a) & mask; res = ptr ? (long)old : (long)(uint32_t)old; break;
    case 'x': *w = (old ^ (uint64_t)o->a) & mask; res = ptr ? (long)old : (long)(uint32_t)old; break;
    case 's': *w = (uint64_t)o->a & mask; break;
    case 'g': res = ptr ? (long)old : (long)(int32_t)old; break;
    }
    return res;
}

static void *lin_thread(void *arg)
{
    LThread *t = arg; int i;
    for (i = 0; i < t->n; i++) {
        LOp *o = &t->op[i];
        if (!o->ptr) switch (o->code) {
            case 'i': p_atomic_int_inc(&sw32); break;
            case 'a': o->res = p_atomic_int_add(&sw32, (pint)o->a); break;
            case 'd': o->res = p_atomic_int_dec_and_test(&sw32) == TRUE; break;
            case 'c': o->res = p_atomic_int_compare_and_exchange(&sw32, (pint)o->a, (pint)o->b) == TRUE; break;
            case 'n': o->res = (long)p_atomic_int_and((volatile puint *)&sw32, (puint)o->a); break;
            case 'o': o->res = (long)p_atomic_int_or((volatile puint *)&sw32, (puint)o->a); break;
            case 'x': o->res = (long)p_atomic_int_xor((volatile puint *)&sw32, (puint)o->a); break;
            case 's': p_atomic_int_set(&sw32, (pint)o->a); break;
            case 'g': o->res = p_atomic_int_get(&sw32); break;
        } else switch (o->code) {
            case 'a': o->res = (long)p_atomic_pointer_add(&swp, (pssize)o->a); break;
            case 'c': o->res = p_atomic_pointer_compare_and_exchange(&swp, (ppointer)o->a, (ppointer)o->b) == TRUE; break;
            case 'n': o->res = (long)p_atomic_pointer_and(&swp, (psize)o->a); break;
            case 'o': o->res = (long)p_atomic_pointer_or(&swp, (psize)o->a); break;
            case 'x': o->res = (long)p_atomic_pointer_xor(&swp, (psize)o->a); break;
            case 's': p_atomic_pointer_set(&swp, (ppointer)o->a); break;
            case 'g': o->res = (long)p_atomic_pointer_get(&swp); break;
        }
    }
    return NULL;
}

static int lin_search(int *pos, uint64_t w, uint64_t final)
{
    int t, done = 1;
    for (t = 0; t < nlt; t++) if (pos[t] < LT[t].n) {
        LOp *o = &LT[t].op[pos[t]]; uint64_t w2 = w; long r = ref_apply(o, &w2, use_ptr);
        done = 0;
        if (strchr("is", o->code) || r == o->res) { pos[t]++; if (lin_search(pos, w2, final)) { pos[t]--; return 1; } pos[t]--; }
    }
    return done && w == final;
}

static void h_lin(int argc, char **argv)
{
    int i, tid[3], pos[3] = {0, 0, 0}; uint64_t final; char desc[400]; size_t o = 0; int t;
    if (argc < 3) mc_fail("C04", "usage", "lin <init> <ops> <ops> [<ops>]");
    init_val = strtol(argv[0], NULL, 0);
    nlt = argc - 1; if (nlt > 3) nlt = 3;
    for (i = 0; i < nlt; i++) parse_ops(argv[i + 1], &LT[i]);
    use_ptr = LT[0].op[0].ptr;
    if (use_ptr) swp = (psize)init_val; else sw32 = (pint)init_val;
    for (i = 0; i < nlt; i++) tid[i] = mc_thread_create(lin_thread, &LT[i]);
    for (i = 0; i < nlt; i++) mc_thread_join(tid[i]);
    final = use_ptr ? (uint64_t)swp : (uint64_t)(uint32_t)sw32;
    for (t = 0; t < nlt; t++) for (i = 0; i < LT[t].n; i++) o += snprintf(desc + o, sizeof desc - o, "T%d:%s%c(%ld,%ld)=%ld ", t, LT[t].op[i].ptr ? "P" : "", LT[t].op[i].code, LT[t].op[i].a, LT[t].op[i].b, LT[t].op[i].res);
    if (!lin_search(pos, use_ptr ? (uint64_t)init_val : (uint64_t)(uint32_t)init_val, final)) {
        char sig[96]; size_t so = 0;
        so += snprintf(sig, sizeof sig, "lin/not-linearizable/");
        for (t = 0; t < nlt; t++) for (i = 0; i < LT[t].n && so + 4 < sizeof sig; i++) so += snprintf(sig + so, sizeof sig - so, "%s%c", LT[t].op[i].ptr ? "P" : "", LT[t].op[i].code);
        mc_fail("C04", sig, "results and final value %#lx (initial %#lx) are not those of any sequential order: %s", (unsigned long)final, (unsigned long)init_val, desc);
    }
    mc_nontrivial(0);
    mc_outcome("final=%#lx %s", (unsigned long)final, desc);
}

/* ------------------------------------------------------------------ message passing through set/get */
static long payload; static volatile pint flag; static volatile psize pflag; static long seen = -1;
static void *mp_writer(void *a) { payload = 42; if (a) p_atomic_pointer_set(&pflag, (ppointer)&payload); else p_atomic_int_set(&flag, 1); return NULL; }
static void *mp_reader(void *a)
{
    if (a) { long *p = p_atomic_pointer_get(&pflag); if (p) { seen = *p; mc_nontrivial(0); } }
    else if (p_atomic_int_get(&flag)) { seen = payload; mc_nontrivial(0); }
    return NULL;
}
static void h_mp(int argc, char **argv)
{
    void *ptr = (argc > 0 && argv[0][0] == 'p') ? (void *)1 : NULL; int a, b;
    mc_name(&payload, sizeof payload, "harness.payload");
    a = mc_thread_create(mp_writer, ptr); b = mc_thread_create(mp_reader, ptr);
    mc_thread_join(a); mc_thread_join(b);
    if (seen != -1 && seen != 42) mc_fail("C04", "mp/stale-payload", "reader saw the flag but payload %ld", seen);
    mc_outcome("seen=%ld", seen);
}

/* ------------------------------------------------------------------ store buffering through set/get */
static volatile pint sbx, sby; static volatile psize sbpx, sbpy; static long sbr[2] = {-1, -1};
static const char *sbmode = "ii";
static void *sb_thread(void *a)
{
    int me = a != NULL, ptr = sbmode[me] == 'p', optr = sbmode[!me] == 'p';
    if (ptr) p_atomic_pointer_set(me ? &sbpy : &sbpx, (ppointer)8); else p_atomic_int_set(me ? &sby : &sbx, 1);
    sbr[me] = optr ? (long)(psize)p_atomic_pointer_get(me ? &sbpx : &sbpy) : (long)p_atomic_int_get(me ? &sbx : &sby);
    return NULL;
}
static void h_sb(int argc, char **argv)
{
    int a, b;
    if (argc > 0 && strlen(argv[0]) == 2) sbmode = argv[0];
    a = mc_thread_create(sb_thread, NULL); b = mc_thread_create(sb_thread, (void *)1);
    mc_thread_join(a); mc_thread_join(b);
    if (sbr[0] == 0 && sbr[1] == 0) {
        char sig[48]; snprintf(sig, sizeof sig, "sb/load-passed-store/%s", sbmode);
        mc_fail("C04", sig, "store buffering: both threads executed set(own word) and then get(other word) and both read the old value 0: "
                "set/get did not act as a full barrier between the store and the following load");
    }
    mc_nontrivial(0);
    mc_outcome("r0=%ld r1=%ld", sbr[0], sbr[1]);
}

/* ------------------------------------------------------------------ full-barrier accounting */
static void h_barrier(int argc, char **argv)
{
    long b0, b1; volatile pint x = 0; volatile psize p = 0;
    (void)argc; (void)argv;
    b0 = mc_barrier_count(); p_atomic_int_set(&x, 1); b1 = mc_barrier_count();
    if (b1 <= b0) mc_fail("C04", "barrier/int_set", "p_atomic_int_set executed no full barrier (no seq_cst operation, fence or lock): a later load may be reordered before the store");
    b0 = b1; (void)p_atomic_int_get(&x); b1 = mc_barrier_count();
    if (b1 <= b0) mc_fail("C04", "barrier/int_get", "p_atomic_int_get executed no full barrier");
    b0 = b1; p_atomic_pointer_set(&p, (ppointer)8); b1 = mc_barrier_count();
    if (b1 <= b0) mc_fail("C04", "barrier/pointer_set", "p_atomic_pointer_set executed no full barrier");
    b0 = b1; (void)p_atomic_pointer_get(&p); b1 = mc_barrier_count();
    if (b1 <= b0) mc_fail("C04", "barrier/pointer_get", "p_atomic_pointer_get executed no full barrier");
    mc_nontrivial(0);
    mc_outcome("ok");
}

static const McHarness HS[] = {
    {"values", h_values, "single-threaded operand alphabet"},
    {"lin", h_lin, "<init> <ops> <ops> [<ops>]"},
    {"mp", h_mp, "<i|p>"},
    {"barrier", h_barrier, ""},
    {"sb", h_sb, "<ii|pp|ip>"},
};
int main(int argc, char **argv) { return mc_main(argc, argv, HS, 5); }
