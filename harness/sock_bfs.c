/* C10: socket modes and lifecycle.  All call sequences up to a depth (deduplicated on the reference state) on a socket under
 * test plus a scripted peer, single-threaded, with a virtual clock.  Compiled twice: over KSIM (engine/ksim.c) and over the
 * real kernel (loopback) with only poll() interposed for the virtual clock; the per-step outcome tuples of every history
 * explored over KSIM are replayed on the real kernel and must be identical (conformance of the model).
 *
 * usage: sock_bfs <explore|check> <stream|dgram> <family 4|6> <depth> <tracefile>  |  sock_bfs replay <stream|dgram> <family> <ops>
 */
#define _GNU_SOURCE
#include <plibsys.h>
#include "hout.h"
#include <arpa/inet.h>
#include <errno.h>
#include <fcntl.h>
#include <poll.h>
#include <setjmp.h>
#include <stdint.h>
#include <sys/socket.h>
#include <unistd.h>
#include <sys/wait.h>

/* ------------------------------------------------------------------ environment abstraction */
#ifdef USE_KSIM
#include "ksim.h"
static unsigned long env_clock(void) { return ksim_clock_ms; }
static long env_blocking_polls(void) { return ksim_blocking_polls; }
static long env_bad_fd_calls(void) { return ksim_calls_on_bad_fd; }
static long env_closed_fd_calls(void) { return ksim_calls_on_closed_fd; }
static int env_cloexec(int fd) { return ksim_fd_cloexec(fd); }
static void env_reset(void) { ksim_reset(); ksim_rxcap = 32; ksim_dgcap = 4; ksim_sigpipe_ignored = 1; }
static void env_set_block(jmp_buf *jb) { ksim_set_block_handler(jb); }
static const char *ENVNAME = "ksim";
#else
#include "netns.h"
#define private_netns verif_private_netns
static unsigned long vclock; static long blocking_polls; static jmp_buf *blk;
int __real_poll(struct pollfd *, nfds_t, int);
int __wrap_poll(struct pollfd *f, nfds_t n, int timeout)
{   /* virtual clock on the real kernel: the harness is single threaded, so nothing can change while we would wait */
    int r = __real_poll(f, n, 0);
    if (r != 0 || timeout == 0) return r;
    blocking_polls++;
    if (timeout > 0) { vclock += (unsigned long)timeout; return 0; }
    if (blk) longjmp(*blk, 1);
    abort();
}
static unsigned long env_clock(void) { return vclock; }
static long env_blocking_polls(void) { return blocking_polls; }
static long env_bad_fd_calls(void) { return 0; }
static long env_closed_fd_calls(void) { return 0; }
static int env_cloexec(int fd) { int f = fcntl(fd, F_GETFD); return f < 0 ? -1 : !!(f & FD_CLOEXEC); }
static void env_reset(void) { vclock = 0; blocking_polls = 0; }
static void env_set_block(jmp_buf *jb) { blk = jb; }
static const char *ENVNAME = "real";
#endif

/* ------------------------------------------------------------------ ops */
enum { O_BLK0, O_BLK1, O_T0, O_T50, O_TNEG, O_KA0, O_KA1, O_BACKLOG, O_BIND, O_LISTEN, O_CONN_OK, O_CONN_REFUSED, O_ACCEPT, O_SEND, O_RECV, O_WAIT_IN, O_SHUT_W, O_SHUT_RW, O_CLOSE,
       O_PCONN, O_PSEND, O_PCLOSE, O_SENDTO, O_RECVFROM, O_PSENDTO, O_ACC_NBRECV, O_CONN_SILENT, O_CONN_AGAIN, O_CONN_REPEAT, NOPS };
static const char *ON[NOPS] = {"nonblocking", "blocking", "timeout0", "timeout50", "timeout-5", "keepalive0", "keepalive1", "backlog3", "bind", "listen", "connect-listening", "connect-closed-port", "accept", "send", "receive", "wait-in", "shutdown-w", "shutdown-rw", "close",
                               "peer-connects", "peer-sends", "peer-closes", "send_to", "receive_from", "peer-send_to", "accepted-socket-nonblocking-receive", "connect-silent-peer", "connect-again-while-pending", "connect-again-when-connected"};
static int DGRAM, FAM, FROMFD;          /* FROMFD: the socket under test is built by p_socket_new_from_fd around a descriptor the harness made (kinds stream-fd / dgram-fd) */
static const char *KINDNAME = "stream";

/* reference model of the socket under test (documented behaviour, see DESIGN.md C10) */
typedef struct { int blocking, timeout, keepalive, backlog, listening, connected, closed, bound; int rx, peer_closed, pending, peer_listening, have_peer_conn, shut_w; int acc_open; int silent; } Ref;      /* silent: a connect to a peer that never answers is pending */
static void ref_init(Ref *r) { memset(r, 0, sizeof *r); r->blocking = 1; r->backlog = 5; }
static void ref_key(const Ref *r, char *b, size_t n) { snprintf(b, n, "%d%d.%d.%d.%d.%d%d%d%d.%d%d%d%d%d%d%d", r->blocking, r->keepalive, r->timeout, r->backlog, r->rx, r->listening, r->connected, r->closed, r->bound, r->peer_closed, r->pending, r->peer_listening, r->have_peer_conn, r->shut_w, r->acc_open, r->silent); }

static void ref_step(Ref *t, int o)
{
    switch (o) {
    case O_BLK0: t->blocking = 0; break; case O_BLK1: t->blocking = 1; break; case O_T0: case O_TNEG: t->timeout = 0; break; case O_T50: t->timeout = 50; break;
    case O_KA0: if (!t->closed) t->keepalive = 0; break; case O_KA1: if (!t->closed) t->keepalive = 1; break;
    case O_BACKLOG: if (!t->listening) t->backlog = 3; break; case O_BIND: if (!t->closed) t->bound = 1; break; case O_LISTEN: if (!t->closed && !DGRAM) t->listening = 1; break;
    case O_CONN_OK: if (!t->closed) { t->connected = 1; t->have_peer_conn = 1; t->peer_listening = 1; } break;
    case O_CONN_SILENT: t->have_peer_conn = 1; t->bound = 1; t->silent = 1; break;
    case O_CONN_AGAIN: case O_CONN_REPEAT: break;
    case O_CONN_REFUSED: if (!t->closed) t->have_peer_conn = 1; break;      /* what a socket may still do after a refused connect is not defined: only options and close follow */
    case O_ACCEPT: if (!t->closed && t->pending > 0) { t->pending--; t->acc_open = 1; } break;
    case O_RECV: if (!t->closed && t->rx > 0) t->rx -= t->rx < 4 ? t->rx : 4; break;
    case O_SHUT_W: t->shut_w = 1; break; case O_SHUT_RW: t->shut_w = 1; t->connected = 0; break;
    case O_CLOSE: t->closed = 1; t->connected = 0; t->listening = 0; break;
    case O_PCONN: t->pending++; t->have_peer_conn = 1; break; case O_PSEND: t->rx += 2; break; case O_PCLOSE: t->peer_closed = 1; break;
    case O_RECVFROM: if (!t->closed && t->rx > 0) t->rx--; break; case O_PSENDTO: t->rx++; break;
    }
}

/* is the op inside what the property / documentation defines in this state? (others are not explored) */
static int op_applicable(const Ref *r, int op)
{
    if (DGRAM) switch (op) {
        case O_BLK0: case O_BLK1: case O_T0: case O_T50: case O_TNEG: case O_CLOSE: case O_BACKLOG: return 1;
        case O_LISTEN: return !r->closed;          /* fails at the system call (datagram sockets cannot listen): must leave the object unchanged */
        case O_BIND: return !r->bound && !r->closed;
        case O_SENDTO: case O_RECVFROM: case O_WAIT_IN: return r->bound || r->closed;
        case O_PSENDTO: return r->bound && !r->closed && r->rx < 2;
        default: return 0;
    }
    switch (op) {
    case O_BLK0: case O_BLK1: case O_T0: case O_T50: case O_TNEG: case O_KA0: case O_KA1: case O_BACKLOG: case O_CLOSE: return 1;
    case O_BIND: return !r->bound && !r->connected && !r->listening && !r->have_peer_conn;      /* binding a socket that was connected before is not defined */
    case O_LISTEN: return (r->bound && !r->connected && !r->listening && !r->have_peer_conn) || r->closed;
    case O_CONN_OK: case O_CONN_REFUSED: return (!r->connected && !r->listening && !r->bound && !r->have_peer_conn) || r->closed;
    case O_CONN_SILENT: return !r->connected && !r->listening && !r->bound && !r->have_peer_conn && !r->closed;
    case O_CONN_REPEAT: return r->connected && r->peer_listening && !r->closed && !r->shut_w && !r->peer_closed;      /* asking again on a connected socket (not a half-closed one): whatever the answer, the socket stays connected */
    case O_CONN_AGAIN: return r->silent && !r->closed;         /* asking again while the handshake is pending: same answer as the first time */
    case O_ACCEPT: return (r->listening && !r->acc_open) || r->closed;
    case O_SEND: return (r->connected && !r->shut_w && !r->peer_closed) || r->closed;
    case O_RECV: case O_WAIT_IN: return r->connected || r->closed;
    case O_SHUT_W: return r->connected && !r->shut_w;
    case O_SHUT_RW: return r->connected && !(r->shut_w && r->peer_closed);      /* both directions already finished: the kernel has dropped the connection */
    case O_PCONN: return r->listening && !r->closed && r->pending < 1;
    case O_PSEND: return r->connected && !r->closed && r->have_peer_conn && !r->peer_closed && r->rx < 6;
    case O_PCLOSE: return r->connected && !r->closed && r->have_peer_conn && !r->peer_closed;
    case O_ACC_NBRECV: return r->acc_open;
    default: return 0;
    }
}

/* ------------------------------------------------------------------ one history on the real objects */
static PSocket *sut, *acc; static int peer_listen = -1, peer_conn = -1, peer_dg = -1, peer_fill = -1; static int peer_port;
static char outcome[160];
static char cur_hist[512]; static int replay_mode;
static struct { char sig[128]; long n; } sigs[64]; static int nsigs; static int fail_flag;
static void viol(const char *sig, const char *fmt, ...)
{
    char buf[1200], rp[700]; va_list ap; int i;
    va_start(ap, fmt); vsnprintf(buf, sizeof buf, fmt, ap); va_end(ap);
    fail_flag = 1;
    if (replay_mode) printf("  !! %s: %s\n", sig, buf);
    for (i = 0; i < nsigs; i++) if (!strcmp(sigs[i].sig, sig)) { sigs[i].n++; return; }
    if (nsigs < 64) { strcpy(sigs[nsigs].sig, sig); sigs[nsigs].n = 1; nsigs++; }
    snprintf(rp, sizeof rp, "sock_bfs replay %s %d %s", KINDNAME, FAM, cur_hist);
    hout_viol("C10", sig, rp, "[%s, %s, IPv%d] history [%s]: %s", ENVNAME, DGRAM ? "datagram" : "stream", FAM, cur_hist, buf);
}
static int native_family(void) { return FAM == 6 ? AF_INET6 : AF_INET; }
static socklen_t mkaddr(struct sockaddr_storage *ss, int port)
{
    memset(ss, 0, sizeof *ss);
    if (FAM == 6) { struct sockaddr_in6 *a = (struct sockaddr_in6 *)ss; a->sin6_family = AF_INET6; a->sin6_port = htons(port); a->sin6_addr.s6_addr[15] = 1; return sizeof *a; }
    else { struct sockaddr_in *a = (struct sockaddr_in *)ss; a->sin_family = AF_INET; a->sin_port = htons(port); a->sin_addr.s_addr = htonl(INADDR_LOOPBACK); return sizeof *a; }
}
static int port_of(int fd) { struct sockaddr_storage ss; socklen_t l = sizeof ss; if (getsockname(fd, (struct sockaddr *)&ss, &l) < 0) return -1; return FAM == 6 ? ntohs(((struct sockaddr_in6 *)&ss)->sin6_port) : ntohs(((struct sockaddr_in *)&ss)->sin_port); }
static PSocketAddress *lib_addr(int port) { return p_socket_address_new(FAM == 6 ? "::1" : "127.0.0.1", (puint16)port); }
static int sut_port(void) { PSocketAddress *a = p_socket_get_local_address(sut, NULL); int p = a ? p_socket_address_get_port(a) : -1; p_socket_address_free(a); return p; }

static void hist_begin(void)
{
    env_reset();
    if (FROMFD) { int fd = socket(native_family(), DGRAM ? SOCK_DGRAM : SOCK_STREAM, 0); if (fd < 0) { perror("socket"); exit(2); } sut = p_socket_new_from_fd(fd, NULL); }
    else sut = p_socket_new(FAM == 6 ? P_SOCKET_FAMILY_INET6 : P_SOCKET_FAMILY_INET, DGRAM ? P_SOCKET_TYPE_DATAGRAM : P_SOCKET_TYPE_STREAM, DGRAM ? P_SOCKET_PROTOCOL_UDP : P_SOCKET_PROTOCOL_TCP, NULL);
    acc = NULL; peer_listen = peer_conn = peer_dg = peer_fill = -1;
    if (!sut) { viol("new-failed", "the socket constructor returned NULL for a supported family / type / protocol"); exit(1); }
    if (!FROMFD && env_cloexec(p_socket_get_fd(sut)) != 1) viol("fd-flags/new-not-cloexec", "descriptor of a new socket does not carry close-on-exec");
}
static void hist_end(void)
{
    /* clean-up after the last judged step: the peer's stream sockets are closed first and abortively (SO_LINGER 0 -> RST), so that no connection of
     * this history stays behind in TIME_WAIT: 10^5 histories would otherwise occupy the whole ephemeral port range of the machine for a minute */
    { struct linger lg = {1, 0}; if (peer_conn >= 0) { setsockopt(peer_conn, SOL_SOCKET, SO_LINGER, &lg, sizeof lg); close(peer_conn); } if (peer_fill >= 0) { setsockopt(peer_fill, SOL_SOCKET, SO_LINGER, &lg, sizeof lg); close(peer_fill); } }
    p_socket_free(acc); p_socket_free(sut); sut = acc = NULL;
    if (peer_listen >= 0) close(peer_listen); if (peer_dg >= 0) close(peer_dg);
}

static const char *ec(PError *e)
{
    static char b[32]; if (!e) return "-";
    switch (p_error_get_code(e)) { case P_ERROR_IO_TIMED_OUT: return "TIMED_OUT"; case P_ERROR_IO_WOULD_BLOCK: return "WOULD_BLOCK"; case P_ERROR_IO_IN_PROGRESS: return "IN_PROGRESS"; case P_ERROR_IO_NOT_AVAILABLE: return "NOT_AVAILABLE"; case P_ERROR_IO_CONNECTION_REFUSED: return "REFUSED"; }
    snprintf(b, sizeof b, "E%d", p_error_get_code(e)); return b;
}

/* expectation for a call that may have to wait: returns the expected outcome prefix */
static void check_wait_rules(const Ref *r, const char *call, int could_proceed, const char *err, unsigned long dt, long dpolls, int blocked_forever)
{
    char sg[96];
    if (could_proceed) return;
    if (!r->blocking) {
        if (strcmp(err, strcmp(call, "connect") ? "WOULD_BLOCK" : "IN_PROGRESS") && !(!strcmp(call, "wait-in"))) { snprintf(sg, sizeof sg, "nonblocking/%s/wrong-error", call); viol(sg, "non-blocking %s that cannot proceed reported %s", call, err); }
        if (strcmp(call, "wait-in") && (dt != 0 || dpolls != 0 || blocked_forever)) { snprintf(sg, sizeof sg, "nonblocking/%s/waited", call); viol(sg, "non-blocking %s waited (%lu ms of virtual time, %ld blocking polls) instead of returning at once", call, dt, dpolls); }
        if (!strcmp(call, "wait-in")) { if (r->timeout > 0 ? (strcmp(err, "TIMED_OUT") || dt < (unsigned long)r->timeout) : !blocked_forever) { snprintf(sg, sizeof sg, "wait/%s", r->timeout > 0 ? "timeout-not-honoured" : "no-timeout-did-not-wait"); viol(sg, "explicit io_condition_wait with timeout %d: error %s after %lu ms", r->timeout, err, dt); } }
    } else if (r->timeout > 0) {
        if (blocked_forever) { snprintf(sg, sizeof sg, "timeout/%s/waits-forever", call); viol(sg, "blocking %s with timeout %d ms waits without a time limit (poll with an infinite time-out)", call, r->timeout); }
        else if (strcmp(err, "TIMED_OUT")) { snprintf(sg, sizeof sg, "timeout/%s/wrong-error", call); viol(sg, "blocking %s with timeout %d ms that cannot proceed reported %s instead of a timed-out error", call, r->timeout, err); }
        else if (dt < (unsigned long)r->timeout) { snprintf(sg, sizeof sg, "timeout/%s/too-early", call); viol(sg, "blocking %s timed out after %lu ms of virtual time, the time-out is %d ms", call, dt, r->timeout); }
    } else if (!blocked_forever) { snprintf(sg, sizeof sg, "no-timeout/%s/did-not-wait", call); viol(sg, "blocking %s without a time-out that cannot proceed returned (%s) instead of waiting", call, err); }
}

static void check_getters(const Ref *r, const char *after)
{
    char sg[96];
#define G(cond, what) do { if (!(cond)) { snprintf(sg, sizeof sg, "getter/%s", what); viol(sg, "after %s: getter %s does not reflect the calls made so far", after, what); } } while (0)
    G(p_socket_get_blocking(sut) == (r->blocking ? TRUE : FALSE), "blocking");
    G(p_socket_get_timeout(sut) == r->timeout, "timeout");
    if (!DGRAM) G(p_socket_get_keepalive(sut) == (r->keepalive ? TRUE : FALSE), "keepalive");
    G(p_socket_get_listen_backlog(sut) == r->backlog, "listen_backlog");
    G(p_socket_is_connected(sut) == (r->connected ? TRUE : FALSE), "is_connected");
    G(p_socket_is_closed(sut) == (r->closed ? TRUE : FALSE), "is_closed");
    if (r->closed) G(p_socket_get_fd(sut) == -1, "fd-after-close");
#undef G
    if (r->closed) {      /* the address getters of a closed socket: whatever they answer, they must not reach a descriptor the library has closed */
        long c0 = env_closed_fd_calls(); PSocketAddress *a = p_socket_get_local_address(sut, NULL), *b = p_socket_get_remote_address(sut, NULL);
        if (a) p_socket_address_free(a); if (b) p_socket_address_free(b);
        if (env_closed_fd_calls() != c0) { snprintf(sg, sizeof sg, "closed/address-getter/system-call-on-closed-descriptor"); viol(sg, "after %s: p_socket_get_local_address / get_remote_address of the closed socket issued %ld system call(s) on the descriptor number the library has already closed", after, env_closed_fd_calls() - c0); }
    }
}

/* executes op; fills outcome[]; updates ref */
static void do_op(const Ref *pre, int op)
{
    Ref post_ = *pre, *r = &post_;      /* r starts as the pre-state; the case bodies below update it exactly like ref_step (checked at the end) */
    PError *e = NULL; jmp_buf jb; volatile int blocked = 0; unsigned long t0 = env_clock(); long p0 = env_blocking_polls(), b0 = env_bad_fd_calls(), c0 = env_closed_fd_calls(); char sg[96];
    const char *err = "-"; long res = 0; unsigned long dt; long dp;
    static char ebuf[32];
    outcome[0] = 0;
    env_set_block(&jb);
    if (setjmp(jb)) { blocked = 1; goto after; }
    switch (op) {
    case O_BLK0: p_socket_set_blocking(sut, FALSE); r->blocking = 0; break;
    case O_BLK1: p_socket_set_blocking(sut, TRUE); r->blocking = 1; break;
    case O_T0: p_socket_set_timeout(sut, 0); r->timeout = 0; break;
    case O_T50: p_socket_set_timeout(sut, 50); r->timeout = 50; break;
    case O_TNEG: p_socket_set_timeout(sut, -5); r->timeout = 0; break;
    case O_KA0: p_socket_set_keepalive(sut, FALSE); if (!r->closed) r->keepalive = 0; break;
    case O_KA1: p_socket_set_keepalive(sut, TRUE); if (!r->closed) r->keepalive = 1; break;
    case O_BACKLOG: p_socket_set_listen_backlog(sut, 3); if (!r->listening) r->backlog = 3; break;
    case O_BIND: { PSocketAddress *a = lib_addr(0); res = p_socket_bind(sut, a, TRUE, &e); p_socket_address_free(a); if (!r->closed) { if (!res) viol("bind/failed", "bind to an ephemeral port failed: %s", ec(e)); r->bound = 1; } break; }
    case O_LISTEN: res = p_socket_listen(sut, &e);
        if (DGRAM) { if (res) viol("listen/datagram-succeeded", "listen on a datagram socket reported success"); }
        else if (!r->closed) { if (!res) viol("listen/failed", "listen on a bound stream socket failed: %s", ec(e)); r->listening = 1; }
        break;
    case O_CONN_OK: case O_CONN_REFUSED: {
        PSocketAddress *a; int port;
        if (op == O_CONN_OK) { struct sockaddr_storage ss; socklen_t l = mkaddr(&ss, 0); peer_listen = socket(native_family(), SOCK_STREAM, 0); if (bind(peer_listen, (struct sockaddr *)&ss, l) < 0 || listen(peer_listen, 4) < 0) { perror("peer listen"); exit(2); } port = port_of(peer_listen); }
        else { struct sockaddr_storage ss; socklen_t l = mkaddr(&ss, 0); int tmp = socket(native_family(), SOCK_STREAM, 0); bind(tmp, (struct sockaddr *)&ss, l); port = port_of(tmp); close(tmp); }
        a = lib_addr(port);
        res = p_socket_connect(sut, a, &e);
        if (!r->closed && !res && e && p_error_get_code(e) == (pint)P_ERROR_IO_IN_PROGRESS && !r->blocking) {
            /* non-blocking connect in progress (returned at once): finish it explicitly, the two platform behaviours (immediate / in progress) converge here */
            PError *e2 = NULL; unsigned long tt = env_clock(); long pp = env_blocking_polls();
            if (tt != t0 || pp != p0) viol("nonblocking/connect/waited", "non-blocking connect waited before reporting in-progress");
            p_error_free(e); e = NULL;
            p_socket_set_timeout(sut, 1000);
            if (p_socket_io_condition_wait(sut, P_SOCKET_IO_CONDITION_POLLOUT, &e2)) res = p_socket_check_connect_result(sut, &e); else { e = e2; e2 = NULL; res = 0; }
            p_socket_set_timeout(sut, r->timeout); p_error_free(e2);
            t0 = env_clock(); p0 = env_blocking_polls();
        }
        p_socket_address_free(a);
        if (!r->closed) {
            if (op == O_CONN_OK) { if (!res) viol("connect/failed", "connect to a listening peer failed: %s", ec(e)); r->connected = 1; r->have_peer_conn = 1; r->peer_listening = 1; peer_conn = accept(peer_listen, NULL, NULL); if (peer_conn < 0) { viol("connect/peer-sees-nothing", "library reports a connection but the peer has nothing to accept"); } }
            else { r->have_peer_conn = 1; if (res || !e || p_error_get_code(e) != (pint)P_ERROR_IO_CONNECTION_REFUSED) viol("connect/refused-expected", "connect to a closed port: result %ld error %s (expected connection refused)", res, ec(e)); }
        }
        break; }
    case O_CONN_SILENT: {     /* a listener whose accept queue is full: the handshake never completes */
        struct sockaddr_storage ss; socklen_t l = mkaddr(&ss, 0); PSocketAddress *a; int port, fl;
        peer_listen = socket(native_family(), SOCK_STREAM, 0);
        if (bind(peer_listen, (struct sockaddr *)&ss, l) < 0 || listen(peer_listen, 0) < 0) { perror("peer listen"); exit(2); }
        port = port_of(peer_listen); l = mkaddr(&ss, port);
        peer_fill = socket(native_family(), SOCK_STREAM, 0); fl = fcntl(peer_fill, F_GETFL); fcntl(peer_fill, F_SETFL, fl | O_NONBLOCK);
        if (connect(peer_fill, (struct sockaddr *)&ss, l) < 0 && errno != EINPROGRESS) { perror("filler connect"); exit(2); }
        r->have_peer_conn = 1; r->bound = 1; r->silent = 1;
        a = lib_addr(port); res = p_socket_connect(sut, a, &e); p_socket_address_free(a);
        if (res) viol("connect/silent-peer-connected", "connect to a listener with a full accept queue reported success");
        else { Ref t = *pre; if (!t.blocking) { if (!e || p_error_get_code(e) != (pint)P_ERROR_IO_IN_PROGRESS) viol("nonblocking/connect/wrong-error", "non-blocking connect that cannot complete reported %s instead of in-progress", ec(e)); if (env_clock() != t0 || env_blocking_polls() != p0) viol("nonblocking/connect/waited", "non-blocking connect waited"); } else check_wait_rules(&t, "connect", 0, ec(e), env_clock() - t0, env_blocking_polls() - p0, 0); }
        break; }
    case O_CONN_REPEAT: { PSocketAddress *a = lib_addr(port_of(peer_listen)); res = p_socket_connect(sut, a, &e); p_socket_address_free(a); break; }
    case O_CONN_AGAIN: {
        PSocketAddress *a = lib_addr(port_of(peer_listen)); res = p_socket_connect(sut, a, &e); p_socket_address_free(a);
        if (res) viol("connect/silent-peer-connected", "a second connect while the handshake with a silent listener is pending reported success");
        else { Ref t = *pre; if (!t.blocking) { if (!e || p_error_get_code(e) != (pint)P_ERROR_IO_IN_PROGRESS) viol("nonblocking/connect/wrong-error", "second non-blocking connect on a pending handshake reported %s instead of in-progress", ec(e)); if (env_clock() != t0 || env_blocking_polls() != p0) viol("nonblocking/connect/waited", "non-blocking connect waited"); } else check_wait_rules(&t, "connect", 0, ec(e), env_clock() - t0, env_blocking_polls() - p0, 0); }
        break; }
    case O_ACCEPT: {
        PSocket *a = p_socket_accept(sut, &e); res = a != NULL;
        if (!r->closed) {
            check_wait_rules(r, "accept", r->pending > 0, ec(e), env_clock() - t0, env_blocking_polls() - p0, 0);
            if (r->pending > 0) { if (!a) viol("accept/failed", "accept with a pending connection failed: %s", ec(e)); else { if (env_cloexec(p_socket_get_fd(a)) != 1) viol("fd-flags/accepted-not-cloexec", "descriptor of an accepted socket does not carry close-on-exec"); if (!p_socket_is_connected(a) || p_socket_is_closed(a)) viol("getter/accepted-state", "accepted socket is not reported connected / open"); } r->pending--; r->acc_open = 1; }
            else if (a) viol("accept/from-nothing", "accept returned a socket although no connection was pending");
        }
        if (a) { p_socket_free(acc); acc = a; }
        break; }
    case O_SEND: res = p_socket_send(sut, "abc", 3, &e); if (!r->closed && res != 3) viol("send/failed", "send of 3 bytes on a connected socket with free buffer space returned %ld (%s)", res, ec(e)); break;
    case O_RECV: { char b[8]; int want = r->rx < 4 ? r->rx : 4; res = p_socket_receive(sut, b, 4, &e);
        if (!r->closed) { check_wait_rules(r, "receive", r->rx > 0 || r->peer_closed, ec(e), env_clock() - t0, env_blocking_polls() - p0, 0); if (r->rx > 0 && res != want) viol("receive/count", "receive with %d bytes queued returned %ld", r->rx, res); if (r->rx == 0 && r->peer_closed && res != 0) viol("receive/eof", "receive after the peer closed returned %ld (%s), expected 0", res, ec(e)); if (r->rx > 0) r->rx -= want; }
        break; }
    case O_WAIT_IN: res = p_socket_io_condition_wait(sut, P_SOCKET_IO_CONDITION_POLLIN, &e);
        if (!r->closed) { int ready = DGRAM ? r->rx > 0 : (r->rx > 0 || r->peer_closed); if (ready && !res) viol("wait/not-ready", "io_condition_wait(POLLIN) failed although input is available: %s", ec(e)); if (!ready) { if (res) viol("wait/ready-from-nothing", "io_condition_wait(POLLIN) succeeded although nothing is readable"); else { Ref t = *r; t.blocking = 0; check_wait_rules(&t, "wait-in", 0, ec(e), env_clock() - t0, env_blocking_polls() - p0, 0); } } }
        break;
    case O_SHUT_W: res = p_socket_shutdown(sut, FALSE, TRUE, &e); if (!res) viol("shutdown/failed", "shutdown(write) on a connected socket failed: %s", ec(e)); r->shut_w = 1; break;
    case O_SHUT_RW: res = p_socket_shutdown(sut, TRUE, TRUE, &e); if (!res) viol("shutdown/failed", "shutdown(read, write) on a connected socket failed: %s", ec(e)); r->shut_w = 1; r->connected = 0; break;
    case O_CLOSE: res = p_socket_close(sut, &e); if (!res) viol("close/failed", "p_socket_close returned FALSE (%s)%s", ec(e), r->closed ? " on an already closed socket: close is not idempotent" : ""); r->closed = 1; r->connected = 0; r->listening = 0; break;
    case O_PCONN: { struct sockaddr_storage ss; socklen_t l = mkaddr(&ss, sut_port()); int fl; peer_conn = socket(native_family(), SOCK_STREAM, 0); fl = fcntl(peer_conn, F_GETFL); fcntl(peer_conn, F_SETFL, fl | O_NONBLOCK); if (connect(peer_conn, (struct sockaddr *)&ss, l) < 0 && errno != EINPROGRESS) viol("peer/connect-failed", "a peer cannot connect to the listening socket under test (errno %d)", errno); r->pending++; r->have_peer_conn = 1; break; }
    case O_PSEND: if (send(peer_conn, "xy", 2, MSG_NOSIGNAL) != 2) viol("peer/send-failed", "peer cannot send to the connected socket under test (errno %d)", errno); r->rx += 2; break;
    case O_PCLOSE: close(peer_conn); peer_conn = -1; r->peer_closed = 1; break;
    case O_SENDTO: { PSocketAddress *a; if (peer_dg < 0) { struct sockaddr_storage ss; socklen_t l = mkaddr(&ss, 0); peer_dg = socket(native_family(), SOCK_DGRAM, 0); bind(peer_dg, (struct sockaddr *)&ss, l); peer_port = port_of(peer_dg); } a = lib_addr(peer_port); res = p_socket_send_to(sut, a, "dg", 2, &e); p_socket_address_free(a); if (!r->closed && res != 2) viol("send_to/failed", "send_to returned %ld (%s)", res, ec(e)); break; }
    case O_RECVFROM: { char b[8]; PSocketAddress *from = NULL; res = p_socket_receive_from(sut, &from, b, sizeof b, &e); p_socket_address_free(from);
        if (!r->closed) { check_wait_rules(r, "receive_from", r->rx > 0, ec(e), env_clock() - t0, env_blocking_polls() - p0, 0); if (r->rx > 0) { if (res != 2) viol("receive_from/count", "receive_from with a queued 2-byte datagram returned %ld", res); r->rx--; } }
        break; }
    case O_ACC_NBRECV: {      /* the accepted socket in non-blocking mode with nothing to read: must return at once with would-block */
        char b[4]; p_socket_set_blocking(acc, FALSE); res = p_socket_receive(acc, b, sizeof b, &e);
        if (res != -1 || !e || p_error_get_code(e) != (pint)P_ERROR_IO_WOULD_BLOCK) viol("nonblocking/accepted-receive/wrong-result", "non-blocking receive on an accepted socket with nothing to read returned %ld (%s)", res, ec(e));
        if (env_clock() != t0 || env_blocking_polls() != p0) viol("nonblocking/accepted-receive/waited", "non-blocking receive on an accepted socket waited");
        p_socket_set_blocking(acc, TRUE);
        break; }
    case O_PSENDTO: { struct sockaddr_storage ss; socklen_t l = mkaddr(&ss, sut_port()); if (peer_dg < 0) { struct sockaddr_storage s2; socklen_t l2 = mkaddr(&s2, 0); peer_dg = socket(native_family(), SOCK_DGRAM, 0); bind(peer_dg, (struct sockaddr *)&s2, l2); peer_port = port_of(peer_dg); } if (sendto(peer_dg, "pq", 2, 0, (struct sockaddr *)&ss, l) != 2) viol("peer/sendto-failed", "peer sendto failed (errno %d)", errno); r->rx++; break; }
    }
after:
    env_set_block(NULL);
    dt = env_clock() - t0; dp = env_blocking_polls() - p0;
    if (e) { snprintf(ebuf, sizeof ebuf, "%s", ec(e)); err = ebuf; }
    if (blocked) {
        Ref t = *r; int can_wait = 0;
        switch (op) { case O_ACC_NBRECV: can_wait = 0; break; case O_CONN_SILENT: case O_CONN_AGAIN: can_wait = 1; break; case O_ACCEPT: can_wait = r->pending == 0; break; case O_RECV: can_wait = r->rx == 0 && !r->peer_closed; break; case O_RECVFROM: can_wait = r->rx == 0; break; case O_WAIT_IN: can_wait = 1; t.blocking = 1; break; }
        if (r->closed || !can_wait || !(r->blocking || op == O_WAIT_IN) || r->timeout > 0) { snprintf(sg, sizeof sg, "waits-forever/%s", ON[op]); viol(sg, "%s waits without a time limit although it %s", ON[op], r->closed ? "is called on a closed socket" : r->timeout > 0 ? "has a time-out" : !r->blocking ? "is non-blocking" : "could proceed"); }
        snprintf(outcome, sizeof outcome, "BLOCKS");
    } else snprintf(outcome, sizeof outcome, "res=%ld err=%s dt=%lu waits=%ld", res, err, dt, dp);
    /* after close: every I/O call fails with not-available and touches no descriptor */
    if (r->closed && !blocked && op != O_CLOSE && (op == O_BIND || op == O_LISTEN || op == O_CONN_OK || op == O_CONN_REFUSED || op == O_ACCEPT || op == O_SEND || op == O_RECV || op == O_WAIT_IN || op == O_SENDTO || op == O_RECVFROM)) {
        if (strcmp(err, "NOT_AVAILABLE")) { snprintf(sg, sizeof sg, "closed/%s/wrong-error", ON[op]); viol(sg, "%s on a closed socket: result %ld error %s (expected a not-available error)", ON[op], res, err); }
        if (env_bad_fd_calls() != b0) { snprintf(sg, sizeof sg, "closed/%s/touched-descriptor", ON[op]); viol(sg, "%s on a closed socket issued %ld system call(s) on an invalid descriptor", ON[op], env_bad_fd_calls() - b0); }
    }
    p_error_free(e);
    /* whatever the call: nothing may be done to a descriptor number the library has closed (in a real process the number may belong to another descriptor by now) */
    if (env_closed_fd_calls() != c0) { snprintf(sg, sizeof sg, "closed/%s/system-call-on-closed-descriptor", ON[op]); viol(sg, "%s issued %ld system call(s) on the descriptor number the library has already closed", ON[op], env_closed_fd_calls() - c0); }
    if (!blocked) { Ref chk = *pre; ref_step(&chk, op); if (memcmp(&chk, r, sizeof chk)) { fprintf(stderr, "reference model inconsistency at op %s\n", ON[op]); exit(2); } check_getters(r, ON[op]); }
}

/* ------------------------------------------------------------------ BFS */
typedef struct { char *key; int parent; unsigned char op; int depth; } St;
static St *st; static int nst, st_cap; static int *htab; static int hcap;
static unsigned long hstr(const char *s) { unsigned long h = 1469598103934665603UL; while (*s) { h ^= (unsigned char)*s++; h *= 1099511628211UL; } return h; }
static int st_find(const char *c) { unsigned long h = hstr(c) % hcap; while (htab[h] >= 0) { if (!strcmp(st[htab[h]].key, c)) return htab[h]; h = (h + 1) % hcap; } return -1; }
static int st_add(const char *c, int parent, int op, int depth) { unsigned long h; if (nst == st_cap) { fprintf(stderr, "state table full\n"); exit(2); } st[nst].key = strdup(c); st[nst].parent = parent; st[nst].op = (unsigned char)op; st[nst].depth = depth; h = hstr(c) % hcap; while (htab[h] >= 0) h = (h + 1) % hcap; htab[h] = nst; return nst++; }
static void hist_text(const unsigned char *h, int n, char *buf, size_t sz) { size_t o = 0; int i; buf[0] = 0; for (i = 0; i < n; i++) o += snprintf(buf + o, sz - o, "%s%d", i ? "." : "", h[i]); }
static long n_hist, n_steps, n_blocks, n_timeouts;

/* runs a history; writes the outcome tuple of each step to tf (explore) or compares with the line given (check) */
static int run_history(const unsigned char *h, int n, FILE *tf, const char *expect, int *ended_blocked)
{
    Ref r; int i; char line[2048]; size_t o = 0;
    ref_init(&r); hist_begin(); n_hist++;
    *ended_blocked = 0;
    for (i = 0; i < n && !fail_flag; i++) {
        do_op(&r, h[i]); ref_step(&r, h[i]); n_steps++;
        o += snprintf(line + o, sizeof line - o, "%s%s", i ? " | " : "", outcome);
        if (!strcmp(outcome, "BLOCKS")) { n_blocks++; *ended_blocked = 1; break; }
        if (strstr(outcome, "TIMED_OUT")) n_timeouts++;
    }
    hist_end();
    if (tf) fprintf(tf, "%s\t%s\n", cur_hist, line);
    if (expect && strcmp(expect, line)) { fprintf(stderr, "CONFORMANCE MISMATCH [%s %s IPv%d] history %s\n  model: %s\n  %s:  %s\n", DGRAM ? "dgram" : "stream", ENVNAME, FAM, cur_hist, expect, ENVNAME, line); return 1; }
    return 0;
}

int main(int argc, char **argv)
{
    int depth, s, i; FILE *tf = NULL; long mismatches = 0, checked = 0;
#ifndef USE_KSIM
    if (argc > 1 && !strcmp(argv[1], "netns-probe")) { pid_t c = fork(); int st = 0; if (c == 0) _exit(private_netns() ? 0 : 1); waitpid(c, &st, 0); return WIFEXITED(st) && WEXITSTATUS(st) == 0 ? 0 : 1; }
#endif
    if (argc < 5) return 2;
    hout_open(); p_libsys_init();
#ifndef USE_KSIM
    hout_stat("private_network_namespace", private_netns());
#endif
    KINDNAME = argv[2]; DGRAM = !strncmp(argv[2], "dgram", 5); FROMFD = strstr(argv[2], "-fd") != NULL; FAM = atoi(argv[3]);
    if (!strcmp(argv[1], "replay")) {
        unsigned char h[64]; int n = 0, eb; const char *p = argv[4];
        replay_mode = 1; while (*p && n < 64) { h[n++] = (unsigned char)strtol(p, (char **)&p, 10); if (*p == '.') p++; }
        strncpy(cur_hist, argv[4], sizeof cur_hist - 1);
        { Ref r; ref_init(&r); hist_begin(); for (i = 0; i < n; i++) { do_op(&r, h[i]); ref_step(&r, h[i]); printf("step %d %-20s -> %s\n", i + 1, ON[h[i]], outcome); if (!strcmp(outcome, "BLOCKS")) break; } hist_end(); (void)eb; }
        printf("replay finished: %ld violation report(s)\n", hout_nviol);
        return hout_nviol ? 1 : 0;
    }
    depth = atoi(argv[4]);
    if (!strcmp(argv[1], "check")) alarm(120);
    if (!strcmp(argv[1], "check")) {      /* conformance: replay every trace of the model run on this environment */
        FILE *f = fopen(argv[5], "r"); char *ln = NULL; size_t cap = 0;
        if (!f) { perror(argv[5]); return 2; }
        while (getline(&ln, &cap, f) > 0) {
            unsigned char h[64]; int n = 0, eb; char *tab = strchr(ln, '\t'), *p = ln;
            if (!tab) continue; *tab = 0; tab++; tab[strcspn(tab, "\n")] = 0;
            while (*p && n < 64) { h[n++] = (unsigned char)strtol(p, &p, 10); if (*p == '.') p++; }
            strncpy(cur_hist, ln, sizeof cur_hist - 1);
            fail_flag = 0; mismatches += run_history(h, n, NULL, tab, &eb); checked++;
        }
        fclose(f);
        hout_stat("conformance_traces_checked", checked); hout_stat("conformance_mismatches", mismatches);
        if (mismatches) return 2;
        return hout_nviol ? 1 : 0;
    }
    tf = argc > 5 ? fopen(argv[5], "w") : NULL;
    st_cap = 1 << 18; st = calloc(st_cap, sizeof *st); hcap = 2 * st_cap + 1; htab = malloc(sizeof(int) * hcap); for (i = 0; i < hcap; i++) htab[i] = -1;
    { Ref r; char k[96]; ref_init(&r); ref_key(&r, k, sizeof k); st_add(k, -1, 0, 0); }
    for (s = 0; s < nst; s++) {
        unsigned char h[64]; int n = st[s].depth, x = s, op;
        for (i = n; i > 0; i--) { h[i - 1] = st[x].op; x = st[x].parent; }
        for (op = 0; op < NOPS; op++) {
            Ref r; int k, eb; char key[96];
            ref_init(&r);
            /* recompute the reference state of s by replaying the model only */
            { int q; for (q = 0; q < n; q++) ref_step(&r, h[q]); }
            if (!op_applicable(&r, op)) continue;
            h[n] = (unsigned char)op; hist_text(h, n + 1, cur_hist, sizeof cur_hist);
            hout_progress("sig=crash/%s sock_bfs replay %s %d %s", ON[op], DGRAM ? "dgram" : "stream", FAM, cur_hist);
            fail_flag = 0;
            run_history(h, n + 1, tf, NULL, &eb);
            if (fail_flag || eb || n + 1 >= depth) continue;
            {   /* successor reference state: replay the model including this op */
                Ref t = r; ref_step(&t, op);
                ref_key(&t, key, sizeof key);
                if (st_find(key) < 0) st_add(key, s, op, n + 1);
                else if (!strcmp(key, st[s].key)) {
                    /* the call left the reference state unchanged (a call that failed, an option set to the value it had): hidden state in
                     * the object would make the *next* call misbehave, so every applicable next call is tried once from here */
                    int op2, eb2;
                    for (op2 = 0; op2 < NOPS; op2++) if (op_applicable(&t, op2)) { h[n + 1] = (unsigned char)op2; hist_text(h, n + 2, cur_hist, sizeof cur_hist); fail_flag = 0; run_history(h, n + 2, tf, NULL, &eb2); }
                }
            }
            (void)k;
        }
    }
    if (tf) fclose(tf);
    hout_stat("states", nst); hout_stat("transitions", n_steps); hout_stat("histories", n_hist); hout_stat("histories_ending_in_an_unbounded_wait", n_blocks); hout_stat("timed_out_calls", n_timeouts);
    hout_stat("nontrivial", n_blocks + n_timeouts);
    hout_sample("%s IPv%d: last history [%s] (op numbers: %d=%s ...)", DGRAM ? "dgram" : "stream", FAM, cur_hist, O_CLOSE, ON[O_CLOSE]);
    for (i = 0; i < nsigs; i++) hout_note("signature %s occurred %ld time(s)", sigs[i].sig, sigs[i].n);
    return hout_nviol ? 1 : 0;
}
